"""Shared runner machinery: context, evidence, findings, collect/bucket/shrink.

Every check module (checks/cNN_*.py) exposes

    ID, LEVEL, RULE, ASSUMPTIONS, DESIGN_REF
    budget(tier) -> dict          # e.g. {"examples": 400}
    strategy(tier) -> hypothesis strategy producing a JSON-able case     (optional)
    enumerate_cases(tier, shard, nshards) -> iterator of JSON-able cases   (optional)
    examine(case, ctx) -> Outcome
    floors(ctx) -> list[str]      # generator-degenerate complaints (optional)

`examine` never raises for a property verdict; it returns verdicts as
(signature, detail) pairs.  The runner files them by signature, matches them
against known_findings.json, continues to the case budget, and afterwards
shrinks one minimal replay per *unlisted* signature.
"""

from __future__ import annotations

import fnmatch
import hashlib
import json
import os
import random
import shutil
import sys
import time
import traceback
from collections import Counter
from dataclasses import dataclass, field
from pathlib import Path
from typing import Any

ROOT = Path(__file__).resolve().parent.parent
KNOWN_FILE = ROOT / "known_findings.json"


def jdump(obj: Any) -> str:
    return json.dumps(obj, sort_keys=True, default=_jdefault)


def _jdefault(o: Any) -> Any:
    try:
        import numpy as np

        if isinstance(o, np.generic):
            return o.item()
        if isinstance(o, np.ndarray):
            return o.tolist()
    except Exception:  # noqa: BLE001
        pass
    if isinstance(o, (set, frozenset)):
        return sorted(o)
    if isinstance(o, tuple):
        return list(o)
    return repr(o)


def chash(obj: Any) -> str:
    return hashlib.sha1(jdump(obj).encode()).hexdigest()[:16]


@dataclass
class Outcome:
    """Result of examining one generated case."""

    nontrivial: Any = None  # hashable/JSON-able key identifying the distinct non-trivial case, or None
    classes: list[str] = field(default_factory=list)
    verdicts: list[tuple[str, dict]] = field(default_factory=list)  # (signature, detail)
    skipped: str | None = None  # reason the case was not judged (counted)
    sample: Any = None  # what to show in evidence instead of the raw case
    nontrivial_many: list = field(default_factory=list)  # several distinct non-trivial sub-cases in one generated case (batches)

    def bad(self, sig: str, **detail: Any) -> None:
        self.verdicts.append((sig, detail))


class Known:
    """Read-only view of known_findings.json."""

    def __init__(self) -> None:
        self.entries: list[dict] = []
        if KNOWN_FILE.exists():
            self.entries = json.loads(KNOWN_FILE.read_text())["findings"]

    def match(self, pid: str, sig: str) -> dict | None:
        for e in self.entries:
            if e["property"] != pid or e.get("status") != "known":
                continue
            for pat in e.get("signatures", []):
                if fnmatch.fnmatchcase(sig, pat.replace("[", "[[]")):
                    return e
        return None

    def known_for(self, pid: str) -> list[dict]:
        return [e for e in self.entries if e["property"] == pid and e.get("status") == "known"]


class Ctx:
    """Per-run state: counters, buckets, evidence."""

    def __init__(self, pid: str, tier: str, seed: int, shard: int | None = None, nshards: int = 1) -> None:
        self.pid = pid
        self.tier = tier
        self.seed = seed
        self.shard = shard
        self.nshards = nshards
        self.t0 = time.time()
        self.evaluations = 0
        self.nontrivial: set[str] = set()
        self.classes: Counter[str] = Counter()
        self.skipped: Counter[str] = Counter()
        self.excluded: Counter[str] = Counter()  # known-finding signature -> cases
        self.buckets: dict[str, dict] = {}  # unlisted signature -> {count, case, detail, size}
        self.samples: list[Any] = []
        self.max_samples = 4
        self.extra: dict[str, Any] = {}
        self.known = Known()
        self.exhaustive = False
        self.notes: list[str] = []
        tag = f"s{shard}" if shard is not None else "main"
        self.work = ROOT / ".work" / pid / f"{tag}-{os.getpid()}"
        if self.work.exists():
            shutil.rmtree(self.work, ignore_errors=True)
        self.work.mkdir(parents=True, exist_ok=True)

    # ------------------------------------------------------------------
    def cleanup(self) -> None:
        shutil.rmtree(self.work, ignore_errors=True)
        try:
            parent = self.work.parent
            if parent.exists() and not any(parent.iterdir()):
                parent.rmdir()
        except OSError:
            pass

    def record(self, case: Any, out: Outcome) -> None:
        self.evaluations += 1
        if out.skipped is not None:
            self.skipped[out.skipped] += 1
        for c in out.classes:
            self.classes[c] += 1
        if out.nontrivial is not None:
            h = chash(out.nontrivial)
            if h not in self.nontrivial:
                self.nontrivial.add(h)
                if len(self.samples) < self.max_samples:
                    self.samples.append(out.sample if out.sample is not None else case)
        for k in out.nontrivial_many:
            h = chash(k)
            if h not in self.nontrivial:
                self.nontrivial.add(h)
                if len(self.samples) < self.max_samples and out.sample is not None and out.sample not in self.samples:
                    self.samples.append(out.sample)
        for sig, detail in out.verdicts:
            if self.known.match(self.pid, sig) is not None:
                self.excluded[sig] += 1
                continue
            size = len(jdump(case))
            b = self.buckets.get(sig)
            if b is None:
                self.buckets[sig] = {"count": 1, "case": case, "detail": detail, "size": size}
            else:
                b["count"] += 1
                if size < b["size"]:
                    b.update(case=case, detail=detail, size=size)

    # ------------------------------------------------------------------
    def dump_state(self) -> dict:
        return {
            "evaluations": self.evaluations,
            "nontrivial": sorted(self.nontrivial),
            "classes": dict(self.classes),
            "skipped": dict(self.skipped),
            "excluded": dict(self.excluded),
            "buckets": self.buckets,
            "samples": self.samples,
            "extra": self.extra,
            "exhaustive": self.exhaustive,
            "notes": self.notes,
        }

    def merge_state(self, s: dict) -> None:
        self.evaluations += s["evaluations"]
        self.nontrivial.update(s["nontrivial"])
        self.classes.update(s["classes"])
        self.skipped.update(s["skipped"])
        self.excluded.update(s["excluded"])
        for sig, b in s["buckets"].items():
            mine = self.buckets.get(sig)
            if mine is None:
                self.buckets[sig] = b
            else:
                mine["count"] += b["count"]
                if b["size"] < mine["size"]:
                    mine.update(case=b["case"], detail=b["detail"], size=b["size"])
        for smp in s["samples"]:
            if len(self.samples) < self.max_samples:
                self.samples.append(smp)
        for k, v in s.get("extra", {}).items():
            if isinstance(v, (int, float)) and isinstance(self.extra.get(k, 0), (int, float)):
                self.extra[k] = self.extra.get(k, 0) + v
            elif isinstance(v, dict):
                d = self.extra.setdefault(k, {})
                for kk, vv in v.items():
                    d[kk] = d.get(kk, 0) + vv if isinstance(vv, (int, float)) else vv
            else:
                self.extra[k] = v
        self.notes.extend(n for n in s.get("notes", []) if n not in self.notes)

    def write_evidence(self, mod: Any, violations: int) -> Path:
        ev = {
            "property_id": self.pid,
            "tier": self.tier,
            "seed": self.seed,
            "level": mod.LEVEL,
            "coverage": {
                "evaluations": self.evaluations,
                "distinct_nontrivial": len(self.nontrivial),
                "rule": mod.RULE,
                "samples": self.samples,
                "class_histogram": dict(sorted(self.classes.items())),
                "skipped": dict(sorted(self.skipped.items())),
                "excluded_as_known": dict(sorted(self.excluded.items())),
                "unlisted_signatures": {k: v["count"] for k, v in sorted(self.buckets.items())},
                "exhaustive": bool(self.exhaustive),
                **self.extra,
            },
            "assumptions": list(getattr(mod, "ASSUMPTIONS", [])) + self.notes,
            "wall_s": round(time.time() - self.t0, 3),
            "violations": violations,
        }
        p = ROOT / "evidence" / f"{self.pid}.json"
        p.parent.mkdir(exist_ok=True)
        p.write_text(json.dumps(ev, indent=1, sort_keys=True, default=_jdefault) + "\n")
        return p


# ----------------------------------------------------------------------
# Hypothesis glue


_patched = False


def patch_hypothesis() -> None:
    """Hypothesis scans every module in sys.modules for constants; mxlpy registers lazily
    imported optional back ends (equinox, keras, ...) whose attribute access raises.  The scan
    is also a dependence on unrelated source text, so it is switched off: a run is a function
    of the strategies and the seed only."""
    global _patched
    if _patched:
        return
    from hypothesis.internal.conjecture import providers

    empty = providers._local_constants
    providers._get_local_constants = lambda: empty
    _patched = True


def hyp_settings(n: int):
    from hypothesis import HealthCheck, Phase, settings

    patch_hypothesis()

    return settings(
        max_examples=n,
        database=None,
        deadline=None,
        derandomize=False,
        report_multiple_bugs=False,
        suppress_health_check=list(HealthCheck),
        phases=[Phase.generate],
    )


class CaseTimeout(BaseException):
    pass


def _on_alarm(signum, frame):  # noqa: ARG001
    raise CaseTimeout


def run_with_timeout(mod: Any, case: Any, ctx: Ctx) -> Outcome:
    """examine under a per-case wall-clock watchdog; expiry = inconclusive (skipped), never a violation."""
    import signal

    limit = getattr(mod, "CASE_TIMEOUT", 90.0)
    if not limit:
        return mod.examine(case, ctx)
    old = signal.signal(signal.SIGALRM, _on_alarm)
    signal.setitimer(signal.ITIMER_REAL, limit)
    try:
        return mod.examine(case, ctx)
    except CaseTimeout:
        return Outcome(skipped="case-timeout(inconclusive)")
    finally:
        signal.setitimer(signal.ITIMER_REAL, 0)
        signal.signal(signal.SIGALRM, old)


def safe_examine(mod: Any, case: Any, ctx: Ctx) -> Outcome:
    """Run examine; an exception escaping the check itself is a harness error (exit 2)."""
    try:
        return run_with_timeout(mod, case, ctx)
    except HarnessError:
        raise
    except Exception as e:  # noqa: BLE001
        raise HarnessError(f"examine crashed on case {jdump(case)[:2000]}\n{traceback.format_exc()}") from e


class HarnessError(Exception):
    pass


def collect_hypothesis(mod: Any, ctx: Ctx, n: int, seed_value: int, time_budget: float | None = None, strat: Any = None) -> None:
    from hypothesis import given, seed

    if strat is None:
        strat = mod.strategy(ctx.tier)
    deadline = None if time_budget is None else time.time() + time_budget

    @seed(seed_value)
    @hyp_settings(n)
    @given(strat)
    def run(case: Any) -> None:
        if deadline is not None and time.time() > deadline:
            ctx.extra["time_budget_hit"] = 1
            return
        out = safe_examine(mod, case, ctx)
        ctx.record(case, out)

    run()


def shrink_signature(mod: Any, ctx: Ctx, sig: str, allowance: float) -> tuple[Any, dict]:
    """Shrink towards a minimal case exhibiting `sig` (and only judged on `sig`)."""
    from hypothesis import HealthCheck, Phase, find, settings
    from hypothesis.errors import NoSuchExample

    b = ctx.buckets[sig]
    best = {"case": b["case"], "detail": b["detail"], "size": b["size"]}
    if not hasattr(mod, "strategy"):
        return best["case"], best["detail"]
    deadline = time.time() + allowance
    patch_hypothesis()

    class _Stop(Exception):
        pass

    def pred(case: Any) -> bool:
        if time.time() > deadline:
            raise _Stop
        try:
            out = run_with_timeout(mod, case, ctx)
        except Exception:  # noqa: BLE001
            return False
        for s, d in out.verdicts:
            if s == sig:
                size = len(jdump(case))
                if size <= best["size"]:
                    best.update(case=case, detail=d, size=size)
                return True
        return False

    try:
        find(
            mod.strategy(ctx.tier),
            pred,
            settings=settings(
                max_examples=2000,
                database=None,
                deadline=None,
                suppress_health_check=list(HealthCheck),
                phases=[Phase.generate, Phase.shrink],
                report_multiple_bugs=False,
            ),
            random=random.Random(ctx.seed),
        )
    except (NoSuchExample, _Stop):
        pass
    except Exception:  # noqa: BLE001 - shrinking is best effort
        pass
    return best["case"], best["detail"]


def write_replay(ctx: Ctx, sig: str, case: Any, detail: dict) -> Path:
    d = ROOT / "replay" / ctx.pid
    d.mkdir(parents=True, exist_ok=True)
    p = d / f"{chash(sig)}.json"
    p.write_text(
        json.dumps(
            {
                "property": ctx.pid,
                "signature": sig,
                "seed": ctx.seed,
                "tier": ctx.tier,
                "case": case,
                "detail": detail,
            },
            indent=1,
            sort_keys=True,
            default=_jdefault,
        )
        + "\n"
    )
    return p


def eprint(*a: Any) -> None:
    print(*a, file=sys.stderr, flush=True)


def in_sympy_piecewise_eval(e: BaseException) -> bool:
    """True when a RecursionError comes from sympy's Piecewise.eval calling itself without end."""
    if not isinstance(e, RecursionError):
        return False
    tb = e.__traceback__
    n = 0
    while tb is not None:
        if tb.tb_frame.f_code.co_filename.endswith("sympy/functions/elementary/piecewise.py") and tb.tb_frame.f_code.co_name == "eval":
            n += 1
        tb = tb.tb_next
    return n >= 10


def raised_inside_sympy_piecewise(e: BaseException) -> bool:
    """True when the exception was raised by sympy code while a sympy Piecewise was being constructed."""
    tb = e.__traceback__
    through, last = False, ""
    while tb is not None:
        fn = tb.tb_frame.f_code.co_filename
        if fn.endswith("sympy/functions/elementary/piecewise.py"):
            through = True
        last = fn
        tb = tb.tb_next
    return through and "/sympy/" in last
