"""Functions sharing their __name__ with functions in rates.py but with another arity (the extra argument is ignored)."""


def mass_action_1(s, k, regulator):
    return k * s


def twice(a, unused):
    return 2.0 * a


def constant(k, unused):
    return k


ARITY = {"mass_action_1": 3, "twice": 2, "constant": 2}
