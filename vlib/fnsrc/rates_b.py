"""Functions that share their __name__ with functions in rates.py but compute something else."""


def mass_action_1(s, k):
    return k * s * 2.0 + 1.0


def twice(a):
    return 3.0 * a


def add2(a, b):
    return a - 2.0 * b


def constant(k):
    return k + 0.5


ARITY = {"mass_action_1": 2, "twice": 1, "add2": 2, "constant": 1}
