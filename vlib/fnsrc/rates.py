"""Hand-written, source-backed rate laws and helper functions (inputs to MxlPy's translators).

Everything here is inside the documented translatable subset except the functions whose name
starts with `untranslatable_`.
"""

import math

SCALE = 1.5


def constant(k):
    return k


def mass_action_1(s, k):
    return k * s


def mass_action_2(s1, s2, k):
    return k * s1 * s2


def michaelis_menten(s, vmax, km):
    return vmax * s / (km + s)


def hill(s, vmax, km, n):
    return vmax * s**n / (km**n + s**n)


def reversible(s, p, kf, kr):
    return kf * s - kr * p


def cond_if(s, k, thr):
    if s > thr:
        return k * s
    return k * thr


def cond_ifelse(s, k, thr):
    if s <= thr:
        v = k * s * 0.5
    else:
        v = k * thr
    return v


def cond_assign(s, k, thr):
    v = k * s
    if s > thr:
        v = k * thr
    return v


def cond_expr(s, k, thr):
    return k * s if s > thr else k * thr


def add2(a, b):
    return a + b


def mul2(a, b):
    return a * b


def div_safe(a, b):
    return a / (1.0 + b * b)


def neg(a):
    return -a


def twice(a):
    return 2.0 * a


def scaled(a):
    return SCALE * a


def sub2(a, b):
    return a - b


def poly2(a, b):
    return a * a + 0.5 * b


def nested_ma(s, k1, k2):
    return mass_action_1(s, k1) + mass_action_1(s, k2)


def one():
    return 1.0


def half_of(a):
    return a / 2


def floordiv2(a, b):
    # power-of-two divisor: a // d and floor(a / d) agree exactly only when a / d is exact
    # (+ 0.3: inputs are (sums, products, ratios of) dyadic numbers, so a itself often sits on a multiple of 0.5 up to
    #  rounding - the jump of the floor; shifted, it does not)
    return (a + 0.3) // 0.5 + b


def mod_half(a, b):
    # Python's %: the result has the sign of the divisor; power-of-two divisor keeps every step exact
    return b * ((a + 0.3) % 0.5)


def neg_mod(a, b):
    # a modulo inside a product with a negative factor
    return -b * ((a + 0.3) % 0.5)


def half_sum(a, b, k):
    # a numeric factor, a symbol and a sum in one product
    return 0.5 * k * (a + b)


def twice_diff(a, b, k):
    return 2 * k * (a - b)


def circle(a):
    return math.pi * a


def root(a):
    return a**0.5


def euler(a):
    return math.e * a


def cross_div(x0, x1):
    # parameter names equal to typical model names: exercises renaming onto own names
    return x0 / (1.0 + x1 * x1)


def cross_ma(p0, x0):
    return p0 * x0


def cross_sub(x1, x0, p0):
    return p0 * (x1 - 0.5 * x0)


def untranslatable_loop(a):
    r = a
    for _ in range(2):
        r = r * 2.0
    return r


def untranslatable_exp(a):
    return math.exp(-a)


def untranslatable_aug(a):
    r = a
    r += 1.0
    return r


ARITY = {
    "constant": 1,
    "mass_action_1": 2,
    "mass_action_2": 3,
    "michaelis_menten": 3,
    "hill": 4,
    "reversible": 4,
    "cond_if": 3,
    "cond_ifelse": 3,
    "cond_expr": 3,
    "cond_assign": 3,
    "add2": 2,
    "mul2": 2,
    "div_safe": 2,
    "neg": 1,
    "twice": 1,
    "scaled": 1,
    "sub2": 2,
    "poly2": 2,
    "nested_ma": 3,
    "one": 0,
    "half_of": 1,
    "floordiv2": 2,
    "mod_half": 2,
    "neg_mod": 2,
    "half_sum": 3,
    "twice_diff": 3,
    "circle": 1,
    "root": 1,
    "euler": 1,
    "cross_div": 2,
    "cross_ma": 2,
    "cross_sub": 3,
    "untranslatable_loop": 1,
    "untranslatable_exp": 1,
    "untranslatable_aug": 1,
}
