"""Mass-action reaction networks with label counts and atom-transition maps (C05, C16)."""

from __future__ import annotations

from hypothesis import strategies as st


def ma0(k):
    return k


def ma1(s1, k):
    return k * s1


def ma2(s1, s2, k):
    return k * s1 * s2


def ma1m(s1, m, k):
    return k * s1 * m


def ma2m(s1, s2, m, k):
    return k * s1 * s2 * m


def ma0m(m, k):
    return k * m


def total2(a, b):
    return a + b


MA = {(0, False): ma0, (1, False): ma1, (2, False): ma2, (0, True): ma0m, (1, True): ma1m, (2, True): ma2m}
NAMES = ["A", "B", "C", "D", "E"]


def build_base(net: dict):
    from mxlpy import Model

    m = Model()
    for c, v in net["pools"].items():
        m.add_variable(c, v)
    for r in net["reactions"]:
        m.add_parameter(f"k_{r['name']}", r["k"])
    if net.get("derived"):
        a, b = net["derived"]
        m.add_derived("tot_ab", total2, args=[a, b])
    for r in net["reactions"]:
        sto: dict[str, int] = {}
        for s in r["subs"]:
            sto[s] = sto.get(s, 0) - 1
        for p in r["prods"]:
            sto[p] = sto.get(p, 0) + 1
        args = [*r["subs"], *([r["modifier"]] if r.get("modifier") else []), f"k_{r['name']}"]
        m.add_reaction(r["name"], MA[(len(r["subs"]), bool(r.get("modifier")))], args=args, stoichiometry=sto)
    return m


@st.composite
def perm_map(draw, n: int, kind: str | None = None) -> list[int]:
    """A permutation of range(n); kinds: identity, reversal, cycle (non-involutive for n >= 3), any."""
    ident = list(range(n))
    if n <= 1:
        return ident
    kind = kind or draw(st.sampled_from(["identity", "reversal", "cycle", "any", "any"]))
    if kind == "identity":
        return ident
    if kind == "reversal":
        return ident[::-1]
    if kind == "cycle":
        k = draw(st.integers(1, n - 1))
        return ident[k:] + ident[:k]
    return list(draw(st.permutations(ident)))


def is_involution(p: list[int]) -> bool:
    return all(p[p[i]] == i for i in range(len(p)))


@st.composite
def label_net(draw, *, allow_unlabelled: bool = True, allow_2a: bool = True, max_labels: int = 3, min_labels_mapped: int = 0) -> dict:
    ncomp = draw(st.integers(2, 4))
    comps = NAMES[:ncomp]
    labels = {}
    for c in comps:
        labels[c] = draw(st.integers(0 if allow_unlabelled else 1, max_labels))
    if all(v == 0 for v in labels.values()):
        labels[comps[0]] = 2
    pools = {c: draw(st.sampled_from([0.5, 1.0, 2.0, 3.0, 4.0])) for c in comps}
    reactions = []
    templates = ["influx", "efflux", "uni", "uni", "merge", "split"] + (["dimer"] if allow_2a else [])
    for i in range(draw(st.integers(1, 4))):
        t = draw(st.sampled_from(templates))
        if t == "influx":
            subs, prods = [], [draw(st.sampled_from(comps))]
        elif t == "efflux":
            subs, prods = [draw(st.sampled_from(comps))], []
        elif t == "uni":
            a, b = draw(st.lists(st.sampled_from(comps), min_size=2, max_size=2, unique=True))
            subs, prods = [a], [b]
        elif t == "merge" and ncomp >= 3:
            a, b, c = draw(st.lists(st.sampled_from(comps), min_size=3, max_size=3, unique=True))
            subs, prods = [a, b], [c]
        elif t == "split" and ncomp >= 3:
            a, b, c = draw(st.lists(st.sampled_from(comps), min_size=3, max_size=3, unique=True))
            subs, prods = [c], [a, b]
        elif t == "dimer":
            a, b = draw(st.lists(st.sampled_from(comps), min_size=2, max_size=2, unique=True))
            subs, prods = [a, a], [b]
        else:
            a, b = draw(st.lists(st.sampled_from(comps), min_size=2, max_size=2, unique=True))
            subs, prods = [a], [b]
        S = sum(labels[c] for c in subs)
        P = sum(labels[c] for c in prods)
        if S > 6 or P > 6:
            continue
        r = {"name": f"v{i}", "template": t, "subs": subs, "prods": prods, "k": draw(st.sampled_from([0.25, 0.5, 1.0, 2.0]))}
        involved = set(subs) | set(prods)
        unl = [c for c in comps if labels[c] == 0 and c not in involved]
        if unl and draw(st.integers(0, 3)) == 0:
            r["modifier"] = draw(st.sampled_from(unl))
        if S + P > 0 or draw(st.booleans()):
            r["map"] = draw(perm_map(max(S, P)))
        else:
            r["map"] = None
        reactions.append(r)
    if not reactions:
        c = comps[0]
        reactions.append({"name": "v0", "template": "efflux", "subs": [c], "prods": [], "k": 1.0, "map": list(range(labels[c]))})
    net = {"labels": labels, "pools": pools, "reactions": reactions}
    if ncomp >= 2 and draw(st.booleans()):
        net["derived"] = [comps[0], comps[1]]
    return net
