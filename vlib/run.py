"""Entry point:  /venv/bin/python -m vlib.run C07 --tier quick [--replay f]

Exit codes: 0 held (possibly with KNOWN-FINDING lines); 1 + VIOLATION line(s);
2 harness error (never a violation).
"""

from __future__ import annotations

import argparse
import importlib
import json
import os
import subprocess
import sys
import time
from pathlib import Path

ROOT = Path(__file__).resolve().parent.parent


def _reexec_if_needed() -> None:
    repo = os.environ.get("VERIF_REPO", "/repo")
    want_pp = f"{repo}/src"
    env = os.environ
    ok = env.get("PYTHONHASHSEED") == "0" and env.get("VERIF_ENV_READY") == "1"
    if ok:
        return
    new = dict(env)
    new["PYTHONHASHSEED"] = "0"
    new["VERIF_ENV_READY"] = "1"
    new["VERIF_REPO"] = repo
    new["MXLPY_VERIF"] = "1"
    new["PYTHONPATH"] = os.pathsep.join([want_pp, str(ROOT)] + ([env["PYTHONPATH"]] if env.get("PYTHONPATH") else []))
    new.setdefault("MPLBACKEND", "Agg")
    new["PYTHONWARNINGS"] = "ignore"
    new["TQDM_DISABLE"] = "1"
    # HOME is redirected later (private SBML cache); keep the Rust toolchain reachable
    home = env.get("HOME", "/root")
    new.setdefault("RUSTUP_HOME", f"{home}/.rustup")
    new.setdefault("CARGO_HOME", f"{home}/.cargo")
    os.execve(sys.executable, [sys.executable, "-m", "vlib.run", *sys.argv[1:]], new)


def _check_module(pid: str):
    checks = ROOT / "checks"
    for p in sorted(checks.glob(f"{pid.lower()}_*.py")):
        return importlib.import_module(f"checks.{p.stem}")
    raise SystemExit(f"no check module for {pid}")


def _import_mxlpy_and_redirect_home(work: Path) -> None:
    import logging

    import mxlpy  # noqa: F401

    repo = os.environ["VERIF_REPO"]
    f = Path(mxlpy.__file__).resolve()
    if not str(f).startswith(str(Path(repo).resolve() / "src")):
        print(f"harness error: mxlpy imported from {f}, expected under {repo}/src", file=sys.stderr)
        raise SystemExit(2)
    home = work / "home"
    home.mkdir(parents=True, exist_ok=True)
    os.environ["HOME"] = str(home)
    logging.disable(logging.CRITICAL)
    # progress bars only (no semantics): keep check output readable
    import mxlpy.parallel as _par

    _real_tqdm = _par.tqdm

    def _quiet_tqdm(*a, **k):
        k["disable"] = True
        return _real_tqdm(*a, **k)

    _par.tqdm = _quiet_tqdm


def main() -> int:
    ap = argparse.ArgumentParser()
    ap.add_argument("pid")
    ap.add_argument("--tier", default=os.environ.get("VERIF_TIER", "quick"), choices=["quick", "thorough"])
    ap.add_argument("--replay")
    ap.add_argument("--shard", type=int)
    ap.add_argument("--nshards", type=int, default=1)
    ap.add_argument("--state-out")
    ap.add_argument("--examples", type=int)
    a = ap.parse_args()

    _reexec_if_needed()
    sys.path.insert(0, str(ROOT))
    import warnings

    warnings.filterwarnings("ignore")

    from vlib import core

    seed = int(os.environ.get("VERIF_SEED", "1") or "1")
    pid = a.pid.upper()
    mod = _check_module(pid)
    ctx = core.Ctx(pid, a.tier, seed, shard=a.shard, nshards=a.nshards)
    try:
        _import_mxlpy_and_redirect_home(ctx.work)
        if hasattr(mod, "prepare"):
            mod.prepare(ctx)
        if a.replay:
            return _replay(mod, ctx, a.replay)
        if a.shard is not None:
            _collect(mod, ctx, a.examples)
            Path(a.state_out).write_text(core.jdump(ctx.dump_state()))
            return 0
        return _full(mod, ctx, a)
    except core.HarnessError as e:
        print(f"HARNESS-ERROR property={pid}: {e}", file=sys.stderr)
        return 2
    finally:
        ctx.cleanup()


def _collect(mod, ctx, examples_override=None) -> None:
    from vlib import core

    b = mod.budget(ctx.tier)
    if hasattr(mod, "enumerate_cases"):
        for case in mod.enumerate_cases(ctx.tier, ctx.shard or 0, ctx.nshards, ctx):
            out = core.safe_examine(mod, case, ctx)
            ctx.record(case, out)
    sd = ctx.seed if ctx.shard is None else ctx.seed * 1000 + ctx.shard
    if hasattr(mod, "strategies"):
        # one generated run per input class with its own case budget, so that every class is covered
        # whatever Hypothesis' internal distribution does
        for label, strat, n in mod.strategies(ctx.tier):
            core.collect_hypothesis(mod, ctx, n, sd, b.get("time_budget"), strat=strat)
    elif hasattr(mod, "strategy"):
        n = examples_override or b["examples"]
        core.collect_hypothesis(mod, ctx, n, sd, b.get("time_budget"))
    if hasattr(mod, "finish"):
        mod.finish(ctx)


def _replay_known(mod, ctx) -> None:
    """Seconds-long replay tier: re-run the committed replay of every listed finding."""
    from vlib import core

    for e in ctx.known.known_for(ctx.pid):
        rp = e.get("replay")
        if not rp:
            continue
        p = ROOT / rp
        if not p.exists():
            raise core.HarnessError(f"known finding replay missing: {rp}")
        case = json.loads(p.read_text())["case"]
        out = core.safe_examine(mod, case, ctx)
        ctx.record(case, out)
        ctx.extra.setdefault("known_replays", 0)
        ctx.extra["known_replays"] += 1


def _full(mod, ctx, a) -> int:
    from vlib import core

    b = mod.budget(ctx.tier)
    _replay_known(mod, ctx)
    nsh = b.get("shards", 1)
    if nsh > 1:
        procs = []
        outs = []
        for i in range(nsh):
            so = ctx.work / f"shard{i}.json"
            outs.append(so)
            cmd = [sys.executable, "-m", "vlib.run", ctx.pid, "--tier", ctx.tier, "--shard", str(i), "--nshards", str(nsh), "--state-out", str(so)]
            procs.append(subprocess.Popen(cmd, cwd=str(ROOT), env=dict(os.environ)))
        rc = [p.wait() for p in procs]
        if any(r != 0 for r in rc):
            raise core.HarnessError(f"shard exit codes {rc}")
        for so in outs:
            ctx.merge_state(json.loads(so.read_text()))
    else:
        _collect(mod, ctx)

    # generator floors
    # coverage-guided stage (thorough tier of the checks that ask for it): libFuzzer mutates the byte stream Hypothesis
    # decodes into a case, guided by branch coverage of the MxlPy modules under test; same strategy, same oracle
    fz = b.get("fuzz_seconds")
    if fz and a.shard is None:
        so = ctx.work / "fuzz_state.json"
        env = dict(os.environ, PYTHONPATH=f"{ROOT}/.deps:{ROOT}:" + os.environ.get("PYTHONPATH", ""))
        try:
            subprocess.run([sys.executable, str(ROOT / "tools" / "fuzz.py"), ctx.pid, "--seconds", str(fz), "--state-out", str(so)], cwd=str(ROOT), env=env, timeout=fz + 180, stdout=subprocess.DEVNULL, stderr=subprocess.DEVNULL, check=False)
        except subprocess.TimeoutExpired:
            pass
        if so.exists():
            st = json.loads(so.read_text())
            ctx.merge_state(st)
            ctx.notes.append(f"coverage-guided stage (atheris/libFuzzer over the same strategy and oracle): {st['fuzz']['executions']} executions in {st['fuzz']['seconds']} s, {len(st['nontrivial'])} distinct non-trivial cases")
        else:
            ctx.notes.append("coverage-guided stage produced no state (atheris not installed?): skipped, the Hypothesis shards alone decide")

    # (a run that found violations reports them: a broken tree can be the very reason a class never occurs,
    #  e.g. "Jacobian invoked" when every call of the Jacobian crashes)
    if hasattr(mod, "floors"):
        complaints = mod.floors(ctx)
        if complaints and not ctx.buckets:
            ctx.write_evidence(mod, 0)
            raise core.HarnessError("generator degenerate: " + "; ".join(complaints))
        if complaints:
            print(f"note: generator floors not met in this run ({'; '.join(complaints)[:300]})")
    if len(ctx.nontrivial) < 2 and not ctx.buckets:
        ctx.write_evidence(mod, 0)
        raise core.HarnessError("fewer than 2 distinct non-trivial cases")

    # shrink + report
    allowance = 45.0 if ctx.tier == "quick" else 240.0
    lines = []
    for sig in sorted(ctx.buckets):
        case, detail = core.shrink_signature(mod, ctx, sig, allowance / max(1, len(ctx.buckets)))
        path = core.write_replay(ctx, sig, case, detail)
        lines.append((sig, path, detail))
    ctx.write_evidence(mod, len(lines))
    for e in ctx.known.known_for(ctx.pid):
        n = sum(c for s, c in ctx.excluded.items() if ctx.known.match(ctx.pid, s) is e)
        print(f"KNOWN-FINDING: property={ctx.pid} {e['what']} [{n} case(s) matched this run]")
    for sig, path, detail in lines:
        print(f"VIOLATION property={ctx.pid} replay={path.relative_to(ROOT)} signature={sig} cases={ctx.buckets[sig]['count']} detail={core.jdump(detail)[:600]}")
    dt = time.time() - ctx.t0
    print(
        f"{ctx.pid} {ctx.tier} seed={ctx.seed}: evaluations={ctx.evaluations} distinct_nontrivial={len(ctx.nontrivial)} "
        f"excluded_known={sum(ctx.excluded.values())} unlisted_signatures={len(lines)} wall={dt:.1f}s"
    )
    return 1 if lines else 0


def _replay(mod, ctx, path: str) -> int:
    from vlib import core

    data = json.loads(Path(path).read_text())
    case = data["case"]
    out = core.safe_examine(mod, case, ctx)
    rc = 0
    for sig, detail in out.verdicts:
        e = ctx.known.match(ctx.pid, sig)
        if e is not None:
            print(f"KNOWN-FINDING: property={ctx.pid} {e['what']}")
        else:
            print(f"VIOLATION property={ctx.pid} replay={path} signature={sig} detail={core.jdump(detail)[:600]}")
            rc = 1
    if not out.verdicts:
        print(f"{ctx.pid} replay {path}: property held")
    return rc


if __name__ == "__main__":
    sys.exit(main())
