"""Linear compartmental networks x' = A(p) x + b(p): model builder + closed-form oracle.

lin = {"n": n, "x0": [..], "influx": {"i": k}, "deg": {"i": k}, "conv": [[i, j, k], ...]}
Rate functions are module-level (picklable for parallel scans).
"""

from __future__ import annotations

import numpy as np
from scipy.linalg import expm as _scipy_expm


def expm(M: np.ndarray) -> np.ndarray:
    """Matrix exponential by scaling and squaring of a Taylor polynomial (plain, no structure-specific shortcuts).

    scipy.linalg.expm (1.18) takes a special path for triangular matrices that loses four digits when two diagonal
    entries differ by one ulp (-1.9999999999999998 and -2.0, found by C04's thorough tier): the augmented matrices
    used here are triangular whenever the network has no cycle, so the oracle does not rely on it.
    """
    M = np.asarray(M, dtype=float)
    nrm = float(np.linalg.norm(M, 1))
    s = max(0, int(np.ceil(np.log2(nrm / 0.25))) if nrm > 0.25 else 0)
    X = M / (2.0**s)
    E = np.eye(M.shape[0])
    term = np.eye(M.shape[0])
    for k in range(1, 25):
        term = term @ X / k
        E = E + term
    for _ in range(s):
        E = E @ E
    return E


def constant(k: float) -> float:
    return k


def first_order(s: float, k: float) -> float:
    return k * s


def ramp(time: float, k: float) -> float:
    return k * time


def param_names(lin: dict) -> list[str]:
    names = [f"kin{i}" for i in sorted(lin["influx"], key=int)]
    names += [f"kd{i}" for i in sorted(lin["deg"], key=int)]
    names += [f"kc{i}_{j}" for i, j, _ in lin["conv"]]
    names += [f"kt{i}" for i in sorted(lin.get("ramp", {}), key=int)]
    return names


def params_of(lin: dict) -> dict[str, float]:
    p = {f"kin{i}": k for i, k in lin["influx"].items()}
    p.update({f"kd{i}": k for i, k in lin["deg"].items()})
    p.update({f"kc{i}_{j}": k for i, j, k in lin["conv"]})
    p.update({f"kt{i}": k for i, k in lin.get("ramp", {}).items()})
    return p


def var_names(lin: dict) -> list[str]:
    return [f"x{i}" for i in range(lin["n"])]


def build(lin: dict):
    from mxlpy import Model

    m = Model()
    p = params_of(lin)
    # parameters in a fixed order (influx, degradation, conversion)
    for name in param_names(lin):
        m.add_parameter(name, p[name])
    for i, v in enumerate(lin["x0"]):
        m.add_variable(f"x{i}", v)
    for i in sorted(lin["influx"], key=int):
        m.add_reaction(f"vin{i}", constant, args=[f"kin{i}"], stoichiometry={f"x{i}": 1})
    for i in sorted(lin["deg"], key=int):
        m.add_reaction(f"vd{i}", first_order, args=[f"x{i}", f"kd{i}"], stoichiometry={f"x{i}": -1})
    for i, j, _ in lin["conv"]:
        m.add_reaction(f"vc{i}_{j}", first_order, args=[f"x{i}", f"kc{i}_{j}"], stoichiometry={f"x{i}": -1, f"x{j}": 1})
    # time-dependent influx k * time (x' = A x + b + c t): optional
    for i in sorted(lin.get("ramp", {}), key=int):
        m.add_reaction(f"vt{i}", ramp, args=["time", f"kt{i}"], stoichiometry={f"x{i}": 1})
    return m


def A_b(lin: dict, p: dict[str, float]) -> tuple[np.ndarray, np.ndarray]:
    n = lin["n"]
    A = np.zeros((n, n))
    b = np.zeros(n)
    for i in lin["influx"]:
        b[int(i)] += p[f"kin{i}"]
    for i in lin["deg"]:
        A[int(i), int(i)] -= p[f"kd{i}"]
    for i, j, _ in lin["conv"]:
        k = p[f"kc{i}_{j}"]
        A[i, i] -= k
        A[j, i] += k
    return A, b


def ramp_vec(lin: dict, p: dict[str, float]) -> np.ndarray:
    c = np.zeros(lin["n"])
    for i in lin.get("ramp", {}):
        c[int(i)] += p[f"kt{i}"]
    return c


def propagate(A: np.ndarray, b: np.ndarray, y: np.ndarray, dt: float, c: np.ndarray | None = None, t0: float = 0.0) -> np.ndarray:
    """x' = A x + b (+ c * time): state after dt, started at absolute time t0 (augmented matrix exponential)."""
    n = len(y)
    if c is None or not np.any(c):
        M = np.zeros((n + 1, n + 1))
        M[:n, :n] = A
        M[:n, n] = b
        E = expm(M * dt)
        return E[:n, :n] @ y + E[:n, n]
    M = np.zeros((n + 2, n + 2))
    M[:n, :n] = A
    M[:n, n] = c
    M[:n, n + 1] = b
    M[n, n + 1] = 1.0
    z = np.concatenate([y, [t0, 1.0]])
    return (expm(M * dt) @ z)[:n]


def steady_state(A: np.ndarray, b: np.ndarray) -> np.ndarray:
    return -np.linalg.solve(A, b)


def fluxes(lin: dict, p: dict[str, float], y) -> dict[str, float]:
    f = {}
    for i in sorted(lin["influx"], key=int):
        f[f"vin{i}"] = p[f"kin{i}"]
    for i in sorted(lin["deg"], key=int):
        f[f"vd{i}"] = p[f"kd{i}"] * y[int(i)]
    for i, j, _ in lin["conv"]:
        f[f"vc{i}_{j}"] = p[f"kc{i}_{j}"] * y[i]
    return f


# ----------------------------------------------------------------------
# strategies


def lin_strategy(max_n: int = 3, kmin: float = 0.05, kmax: float = 2.0, all_degrade: bool = True):
    from hypothesis import strategies as st

    rate = st.one_of(
        st.sampled_from([0.05, 0.1, 0.25, 0.5, 1.0, 2.0]).filter(lambda k: kmin <= k <= kmax),
        st.floats(kmin, kmax, allow_nan=False, allow_subnormal=False),
    )

    @st.composite
    def lin(draw):
        n = draw(st.integers(1, max_n))
        x0 = [draw(st.integers(0, 40).map(lambda i: i / 4)) for _ in range(n)]
        influx = {}
        deg = {}
        for i in range(n):
            if draw(st.booleans()) or i == 0:
                influx[str(i)] = draw(rate)
            if all_degrade or draw(st.booleans()):
                deg[str(i)] = draw(rate)
        conv = []
        if n > 1:
            pairs = [(i, j) for i in range(n) for j in range(n) if i != j]
            chosen = draw(st.lists(st.sampled_from(pairs), min_size=0, max_size=3, unique=True))
            conv = [[i, j, draw(rate)] for i, j in chosen]
        return {"n": n, "x0": x0, "influx": influx, "deg": deg, "conv": conv}

    return lin()
