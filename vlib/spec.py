"""Abstract model spec (ordered declarations) + builder onto the public Model API
+ the reference evaluator (demand-driven memoised recursion; no queue, no sort,
no cache, no static/dynamic split).

spec = {"decls": [[kind, name, payload], ...]}
  parameter: {"value": x} | {"ia": {"fn": FD, "args": [...]}}
  variable:  {"value": x} | {"ia": {...}}
  derived / readout: {"fn": FD, "args": [...]}
  reaction:  {"fn": FD, "args": [...], "stoich": {var: number | "name" | {"fn": FD, "args": [...]}}}
  surrogate: {"fn": FD(multi), "args": [...], "outputs": [...], "stoich": {out: {var: coef}}}
  data:      {"values": [...]}
"""

from __future__ import annotations

from typing import Any

from vlib import fnlib


class RefCycle(Exception):
    pass


class RefMissing(Exception):
    def __init__(self, names: list[str]) -> None:
        super().__init__(str(names))
        self.names = names


def decls_of(spec: dict, kind: str) -> list[tuple[str, dict]]:
    return [(n, p) for k, n, p in spec["decls"] if k == kind]


def var_names(spec: dict) -> list[str]:
    return [n for n, _ in decls_of(spec, "variable")]


# ----------------------------------------------------------------------
# builder


def _coef(v: Any):
    from mxlpy.types import Derived

    if isinstance(v, dict):
        return Derived(fn=fnlib.make(v["fn"]), args=list(v["args"]))
    return v


def build(spec: dict):
    import pandas as pd
    from mxlpy import Model
    from mxlpy.surrogates.abstract import MockSurrogate
    from mxlpy.types import InitialAssignment

    m = Model()
    for kind, name, p in spec["decls"]:
        if kind == "parameter":
            if "ia" in p:
                m.add_parameter(name, InitialAssignment(fn=fnlib.make(p["ia"]["fn"]), args=list(p["ia"]["args"])))
            else:
                m.add_parameter(name, p["value"])
        elif kind == "variable":
            if "ia" in p:
                m.add_variable(name, InitialAssignment(fn=fnlib.make(p["ia"]["fn"]), args=list(p["ia"]["args"])))
            else:
                m.add_variable(name, p["value"])
        elif kind == "derived":
            m.add_derived(name, fnlib.make(p["fn"]), args=list(p["args"]))
        elif kind == "readout":
            m.add_readout(name, fnlib.make(p["fn"]), args=list(p["args"]))
        elif kind == "reaction":
            m.add_reaction(
                name,
                fnlib.make(p["fn"]),
                args=list(p["args"]),
                stoichiometry={k: _coef(v) for k, v in p["stoich"].items()},
            )
        elif kind == "surrogate":
            m.add_surrogate(
                name,
                MockSurrogate(
                    fn=fnlib.make(p["fn"]),
                    args=list(p["args"]),
                    outputs=list(p["outputs"]),
                    stoichiometries={o: {k: _coef(v) for k, v in st.items()} for o, st in p["stoich"].items()},
                ),
            )
        elif kind == "data":
            m.add_data(name, pd.Series(p["values"], dtype=float))
        else:
            raise ValueError(kind)
    return m


# ----------------------------------------------------------------------
# reference evaluator


class Ref:
    """Demand-driven evaluator over a spec."""

    def __init__(self, spec: dict) -> None:
        import pandas as pd

        self.spec = spec
        self.kind: dict[str, str] = {}
        self.payload: dict[str, dict] = {}
        self.provider: dict[str, str] = {}  # surrogate output -> surrogate name
        for kind, name, p in spec["decls"]:
            self.kind[name] = kind
            self.payload[name] = p
            if kind == "surrogate":
                for o in p["outputs"]:
                    self.kind[o] = "surrogate_output"
                    self.provider[o] = name
        self.data = {n: pd.Series(p["values"], dtype=float) for n, p in decls_of(spec, "data")}
        self._initial: dict[str, Any] | None = None

    # -- generic recursive evaluation ---------------------------------
    def _eval(self, name: str, env: dict, memo: dict, stack: list, *, initial: bool) -> Any:
        if name in memo:
            return memo[name]
        if name == "time":
            return env["time"]
        kind = self.kind.get(name)
        if kind is None:
            raise RefMissing([name])
        if name in stack:
            raise RefCycle(" -> ".join([*stack, name]))
        p = self.payload.get(name)
        if kind == "data":
            return self.data[name]
        if kind == "variable":
            if not initial:
                return env["variables"][name]
            if "ia" not in p:
                memo[name] = p["value"]
                return memo[name]
            fd, args = p["ia"]["fn"], p["ia"]["args"]
        elif kind == "parameter":
            if "ia" not in p:
                memo[name] = p["value"]
                return memo[name]
            if not initial:
                memo[name] = self.initial()[name]
                return memo[name]
            fd, args = p["ia"]["fn"], p["ia"]["args"]
        elif kind in ("derived", "reaction", "readout"):
            fd, args = p["fn"], p["args"]
        elif kind == "surrogate_output":
            sname = self.provider[name]
            sp = self.payload[sname]
            stack.append(sname)
            vals = [self._eval(a, env, memo, stack, initial=initial) for a in sp["args"]]
            stack.pop()
            outs = fnlib.evaluate(sp["fn"], vals)
            for o, v in zip(sp["outputs"], outs, strict=True):
                memo[o] = v
            return memo[name]
        else:
            raise RefMissing([name])
        stack.append(name)
        vals = [self._eval(a, env, memo, stack, initial=initial) for a in args]
        stack.pop()
        memo[name] = fnlib.evaluate(fd, vals)
        return memo[name]

    def _coef(self, c: Any, env: dict, memo: dict, *, initial: bool) -> float:
        if isinstance(c, str):
            return self._eval(c, env, memo, [], initial=initial)
        if isinstance(c, dict):
            vals = [self._eval(a, env, memo, [], initial=initial) for a in c["args"]]
            return fnlib.evaluate(c["fn"], vals)
        return c

    # -- public ---------------------------------------------------------
    def initial(self) -> dict[str, Any]:
        """All names evaluated at time 0 from the declared initial state."""
        if self._initial is None:
            env = {"time": 0.0, "variables": {}}
            memo: dict[str, Any] = {}
            for kind, name, p in self.spec["decls"]:
                if kind in ("readout", "data"):
                    continue
                if kind == "surrogate":
                    for o in p["outputs"]:
                        self._eval(o, env, memo, [], initial=True)
                    continue
                self._eval(name, env, memo, [], initial=True)
            self._initial = memo
        return self._initial

    def initial_conditions(self) -> dict[str, float]:
        ini = self.initial()
        return {n: ini[n] for n in var_names(self.spec)}

    def evaluate(self, variables: dict[str, float], time: float, *, readouts: bool = False) -> dict[str, Any]:
        self.initial()
        env = {"time": time, "variables": variables}
        memo: dict[str, Any] = {}
        out: dict[str, Any] = {"time": time}
        for kind, name, p in self.spec["decls"]:
            if kind == "data":
                continue
            if kind == "readout" and not readouts:
                continue
            if kind == "surrogate":
                for o in p["outputs"]:
                    out[o] = self._eval(o, env, memo, [], initial=False)
                continue
            out[name] = self._eval(name, env, memo, [], initial=False)
        return out

    def flux_names(self) -> list[str]:
        names = [n for n, _ in decls_of(self.spec, "reaction")]
        for _, p in decls_of(self.spec, "surrogate"):
            names.extend(p["stoich"])
        return names

    def stoich_terms(self, variables: dict[str, float], time: float) -> dict[str, dict[str, float]]:
        """variable -> {flux: coefficient} evaluated at the state."""
        self.initial()
        env = {"time": time, "variables": variables}
        memo: dict[str, Any] = {}
        res: dict[str, dict[str, float]] = {}
        for n, p in decls_of(self.spec, "reaction"):
            for v, c in p["stoich"].items():
                res.setdefault(v, {})[n] = self._coef(c, env, memo, initial=False)
        for _, p in decls_of(self.spec, "surrogate"):
            for o, stc in p["stoich"].items():
                for v, c in stc.items():
                    res.setdefault(v, {})[o] = self._coef(c, env, memo, initial=False)
        return res

    def rhs(self, variables: dict[str, float], time: float) -> tuple[dict[str, float], dict[str, float]]:
        """(dxdt, scale) per variable in declaration order; scale = sum |coef*flux|."""
        vals = self.evaluate(variables, time)
        st = self.stoich_terms(variables, time)
        dx: dict[str, float] = {}
        sc: dict[str, float] = {}
        for v in var_names(self.spec):
            tot = 0.0
            mag = 0.0
            for flux, c in st.get(v, {}).items():
                t = c * vals[flux]
                tot += t
                mag += abs(t)
            dx[v] = tot
            sc[v] = mag
        return dx, sc

    # -- classification -------------------------------------------------
    def derived_parameters(self) -> list[str]:
        """Derived quantities depending, through any chain, only on parameters."""
        memo: dict[str, bool] = {}

        def only_params(name: str, stack: tuple = ()) -> bool:
            if name in memo:
                return memo[name]
            k = self.kind.get(name)
            if k == "parameter":
                r = True
            elif k == "derived":
                if name in stack:
                    raise RefCycle(name)
                r = all(only_params(a, (*stack, name)) for a in self.payload[name]["args"])
            else:
                r = False  # variables, time, data, fluxes, surrogate outputs
            memo[name] = r
            return r

        return [n for n, _ in decls_of(self.spec, "derived") if only_params(n)]


def close(a: float, b: float, scale: float = 0.0, rtol: float = 1e-9) -> bool:
    import math

    try:
        a = float(a)
        b = float(b)
    except (TypeError, ValueError):
        return False
    if math.isnan(a) or math.isnan(b):
        return math.isnan(a) and math.isnan(b)
    if math.isinf(a) or math.isinf(b):
        return a == b
    return abs(a - b) <= rtol * (1.0 + max(abs(a), abs(b), abs(scale)))
