"""Run-time detection of ill-conditioned evaluations of generated Python functions.

A generated expression may compare two values that are mathematically equal but computed differently
(`math.sin(math.pi) > a - a`), or round a value that sits on an integer (`math.ceil(math.sin(math.pi))`).  Any faithful
re-implementation (exact constants, 15-digit literals, re-associated sums) may then legitimately land on the other side of the
discontinuity.  `instrument(src)` rewrites a module so that every comparison, ceil/floor/round call, `//` and `%` reports how
close it came to its discontinuity; `ties()` returns what was recorded.

A tie is recorded when the distance is <= 1e-9 (relative) and the situation is not provably exact: distance exactly 0 between
operands that are free of irrational constants / transcendental functions / division *and* whose values are small dyadic
rationals is exact arithmetic and is not a tie.
"""

from __future__ import annotations

import ast
import math

_MARKERS = ("pi", "sin", "cos", "tan", "log", "exp", "sqrt", "/", "** 0.5", "math.e", "np.e")
RECORD: list[str] = []


def reset() -> None:
    RECORD.clear()


def ties() -> list[str]:
    return list(RECORD)


def _safe(x) -> bool:
    try:
        x = float(x)
    except (TypeError, ValueError):
        return False
    return math.isfinite(x) and abs(x) < 2**20 and (x * 2**20) == int(x * 2**20)


def _near(a, b) -> tuple[bool, bool]:
    """(within tolerance, exactly equal)"""
    try:
        a, b = float(a), float(b)
    except (TypeError, ValueError):
        return False, False
    if not (math.isfinite(a) and math.isfinite(b)):
        return False, False
    d = abs(a - b)
    return d <= 1e-9 * max(1.0, abs(a), abs(b)), d == 0.0


def cmp_probe(ops: list[str], thunks: list, inexact: list[bool], text: str):
    import operator

    table = {"<": operator.lt, "<=": operator.le, ">": operator.gt, ">=": operator.ge, "==": operator.eq, "!=": operator.ne}
    left = thunks[0]()
    for i, op in enumerate(ops):
        right = thunks[i + 1]()
        if any(isinstance(v, complex) or v != v for v in (left, right)):
            # numpy scalars turn (-1.0) ** 0.5 into nan where Python floats give a complex number / raise: the
            # comparison is undefined, whatever it answers
            RECORD.append(f"comparison {text}: undefined operand {left!r} {op} {right!r}")
        near, same = _near(left, right)
        if near and not (same and not inexact[i] and not inexact[i + 1] and _safe(left) and _safe(right)):
            RECORD.append(f"comparison {text}: {left!r} {op} {right!r}")
        if not table[op](left, right):
            return False
        left = right
    return True


def round_probe(fn, x, inexact: bool, text: str):
    try:
        xf = float(x)
        if math.isfinite(xf):
            near, same = _near(xf, round(xf))
            if near and not (same and not inexact and _safe(xf)):
                RECORD.append(f"rounding {text}: {xf!r}")
    except (TypeError, ValueError):
        pass
    return fn(x)


def div_probe(kind: str, a, b, inexact: bool, text: str):
    try:
        q = float(a) / float(b)
        near, same = _near(q, round(q))
        if near and not (same and not inexact and _safe(a) and _safe(b)):
            RECORD.append(f"{kind} {text}: {a!r}, {b!r}")
    except (TypeError, ValueError, ZeroDivisionError):
        pass
    return a // b if kind == "floordiv" else a % b


def pow_probe(a, b, text: str):
    try:
        r = a**b
    except (ZeroDivisionError, OverflowError, ValueError, TypeError):
        RECORD.append(f"power {text}: undefined operand {a!r} ** {b!r}")
        raise
    if isinstance(r, complex) or r != r:
        # Python floats answer a complex number, numpy scalars nan: whatever follows is not the mathematics of a real model
        RECORD.append(f"power {text}: undefined operand {a!r} ** {b!r}")
    return r


def _inexact(node: ast.AST) -> bool:
    t = ast.unparse(node)
    return any(m in t for m in _MARKERS)


class _T(ast.NodeTransformer):
    def visit_Compare(self, node: ast.Compare):
        self.generic_visit(node)
        sym = {ast.Lt: "<", ast.LtE: "<=", ast.Gt: ">", ast.GtE: ">=", ast.Eq: "==", ast.NotEq: "!="}
        if not all(type(o) in sym for o in node.ops):
            return node
        operands = [node.left, *node.comparators]
        return ast.Call(
            func=ast.Name("__cmp_probe__", ast.Load()),
            args=[
                ast.Constant([sym[type(o)] for o in node.ops]) if False else ast.List([ast.Constant(sym[type(o)]) for o in node.ops], ast.Load()),
                ast.List([ast.Lambda(ast.arguments(posonlyargs=[], args=[], kwonlyargs=[], kw_defaults=[], defaults=[]), o) for o in operands], ast.Load()),
                ast.List([ast.Constant(_inexact(o)) for o in operands], ast.Load()),
                ast.Constant(ast.unparse(node)[:80]),
            ],
            keywords=[],
        )

    def visit_Call(self, node: ast.Call):
        self.generic_visit(node)
        name = ast.unparse(node.func)
        if name.split(".")[-1] in ("remainder", "mod") and len(node.args) == 2:
            # numpy's remainder is Python's %
            return ast.Call(func=ast.Name("__div_probe__", ast.Load()), args=[ast.Constant("mod"), node.args[0], node.args[1], ast.Constant(_inexact(node.args[0]) or _inexact(node.args[1])), ast.Constant(ast.unparse(node)[:80])], keywords=[])
        if name.split(".")[-1] in ("ceil", "floor", "round", "trunc") and len(node.args) == 1:
            return ast.Call(func=ast.Name("__round_probe__", ast.Load()), args=[node.func, node.args[0], ast.Constant(_inexact(node.args[0])), ast.Constant(ast.unparse(node)[:80])], keywords=[])
        return node

    def visit_BinOp(self, node: ast.BinOp):
        self.generic_visit(node)
        if isinstance(node.op, ast.Pow):
            return ast.Call(func=ast.Name("__pow_probe__", ast.Load()), args=[node.left, node.right, ast.Constant(ast.unparse(node)[:80])], keywords=[])
        if isinstance(node.op, (ast.FloorDiv, ast.Mod)):
            kind = "floordiv" if isinstance(node.op, ast.FloorDiv) else "mod"
            return ast.Call(func=ast.Name("__div_probe__", ast.Load()), args=[ast.Constant(kind), node.left, node.right, ast.Constant(_inexact(node.left) or _inexact(node.right)), ast.Constant(ast.unparse(node)[:80])], keywords=[])
        return node


def instrument(src: str) -> str:
    tree = _T().visit(ast.parse(src))
    ast.fix_missing_locations(tree)
    head = "from vlib.illcond import cmp_probe as __cmp_probe__, round_probe as __round_probe__, div_probe as __div_probe__, pow_probe as __pow_probe__\n"
    return head + ast.unparse(tree) + "\n"
