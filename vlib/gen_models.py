"""Hypothesis strategies producing model specs (JSON-able), acyclic and complete by construction."""

from __future__ import annotations

from hypothesis import strategies as st

from vlib import fnlib

# coefficients: exact binary fractions so JSON round-trips and sums are benign
coef = st.integers(-24, 24).map(lambda i: i / 8)
nz_coef = coef.filter(lambda x: x != 0)
value = st.one_of(
    st.integers(-80, 80).map(lambda i: i / 8),
    st.floats(-10, 10, allow_nan=False, allow_infinity=False, allow_subnormal=False),
)
pos_value = st.integers(1, 80).map(lambda i: i / 8)


@st.composite
def fn_desc(draw, n: int, kinds=("poly", "rat")) -> dict:
    kind = draw(st.sampled_from(kinds))
    c = [draw(coef) for _ in range(fnlib.ncoef(kind, n))]
    if all(x == 0 for x in c):
        c[0] = 1.0
    return {"kind": kind, "n": n, "c": c}


@st.composite
def pick_args(draw, pool: list[str], lo: int = 0, hi: int = 3, must: list[str] | None = None) -> list[str]:
    k = draw(st.integers(lo, min(hi, len(pool)))) if pool else 0
    args = [draw(st.sampled_from(pool)) for _ in range(k)]
    if must:
        m = draw(st.sampled_from(must))
        if m not in args:
            args.insert(draw(st.integers(0, len(args))), m)
    return args


@st.composite
def sign_definite_fn(draw, n: int) -> dict:
    sgn = draw(st.sampled_from([1.0, -1.0]))
    c = [sgn * draw(st.integers(1, 24)) / 8 for _ in range(n + 1)]
    return {"kind": "sq", "n": n, "c": c}


@st.composite
def coef_value(draw, pool: list[str], named_pool: list[str], sign_stable: bool = False):
    which = draw(st.sampled_from(["int", "int", "frac", "named", "computed", "computed"]))
    if sign_stable and which == "named":
        which = "computed"
    if sign_stable and which == "computed" and pool:
        args = draw(pick_args(pool, 1, 2))
        return {"fn": draw(sign_definite_fn(len(args))), "args": args}
    if which == "int":
        return draw(st.integers(-3, 3).filter(lambda i: i != 0))
    if which == "frac":
        return draw(nz_coef)
    if which == "named" and named_pool:
        return draw(st.sampled_from(named_pool))
    if pool:
        args = draw(pick_args(pool, 1, 2))
        return {"fn": draw(fn_desc(len(args))), "args": args}
    return draw(nz_coef)


@st.composite
def full_spec(
    draw,
    *,
    max_par=4,
    max_var=4,
    max_nodes=8,
    allow_surrogates=True,
    allow_ia=True,
    allow_data=True,
    allow_readouts=True,
    allow_time=True,
    ia_weight=1,
    sign_stable_coefficients=False,
) -> dict:
    """A well-formed model spec: hidden topological order, shuffled declaration order."""
    n_par = draw(st.integers(1, max_par))
    n_var = draw(st.integers(1, max_var))
    decls: list[list] = []
    base: list[str] = []
    for i in range(n_par):
        decls.append(["parameter", f"p{i}", {"value": draw(value)}])
        base.append(f"p{i}")
    plain_vars = []
    ia_vars = []
    for i in range(n_var):
        name = f"x{i}"
        if allow_ia and draw(st.integers(0, 5)) < ia_weight:
            ia_vars.append(name)
        else:
            plain_vars.append(name)
            base.append(name)
    if allow_time:
        base.append("time")
    has_data = allow_data and draw(st.integers(0, 4)) == 0
    if has_data:
        decls.append(["data", "dat0", {"values": [draw(coef) for _ in range(draw(st.integers(1, 3)))]}])
        base.append("dat0")

    var_decl: dict[str, list] = {v: ["variable", v, {"value": draw(value)}] for v in plain_vars}
    all_vars = [f"x{i}" for i in range(n_var)]

    avail = list(base)  # names usable as arguments so far (hidden topological order)
    n_nodes = draw(st.integers(1, max_nodes))
    kinds = ["derived", "derived", "reaction", "reaction"]
    if allow_surrogates:
        kinds.append("surrogate")
    if allow_ia:
        kinds += ["ia_par"] * ia_weight
    counters = {"d": 0, "r": 0, "s": 0, "q": 0}
    pending_ia_vars = list(ia_vars)
    reactions: list[list] = []
    surrogates: list[list] = []
    n_rxn = 0
    def args_for(lo: int, hi: int) -> list[str]:
        # bias towards chaining: half of the time force one argument that is itself computed
        nonbase = [a for a in avail if a not in base]
        must = nonbase if nonbase and draw(st.booleans()) else None
        return draw(pick_args(avail, lo, hi, must=must))

    for _ in range(n_nodes):
        kind = draw(st.sampled_from(kinds))
        if pending_ia_vars and draw(st.booleans()):
            kind = "ia_var"
        if kind == "derived":
            name = f"d{counters['d']}"
            counters["d"] += 1
            args = args_for(0, 3)
            decls.append(["derived", name, {"fn": draw(fn_desc(len(args))), "args": args}])
            avail.append(name)
        elif kind == "reaction":
            name = f"r{counters['r']}"
            counters["r"] += 1
            args = args_for(0, 3)
            d = ["reaction", name, {"fn": draw(fn_desc(len(args))), "args": args, "stoich": None}]
            decls.append(d)
            reactions.append(d)
            avail.append(name)
            n_rxn += 1
        elif kind == "surrogate":
            name = f"s{counters['s']}"
            counters["s"] += 1
            args = args_for(1, 3)
            k = draw(st.integers(1, 3))
            outs = [f"{name}o{j}" for j in range(k)]
            parts = [draw(fn_desc(len(args))) for _ in range(k)]
            d = ["surrogate", name, {"fn": {"kind": "multi", "n": len(args), "parts": parts}, "args": args, "outputs": outs, "stoich": None}]
            decls.append(d)
            surrogates.append(d)
            avail.extend(outs)
        elif kind == "ia_par":
            name = f"q{counters['q']}"
            counters["q"] += 1
            args = args_for(0, 3)
            decls.append(["parameter", name, {"ia": {"fn": draw(fn_desc(len(args))), "args": args}}])
            avail.append(name)
        elif kind == "ia_var":
            name = pending_ia_vars.pop(0)
            args = args_for(0, 3)
            var_decl[name] = ["variable", name, {"ia": {"fn": draw(fn_desc(len(args))), "args": args}}]
            avail.append(name)
    # leftover ia vars become assignments over what exists
    for name in pending_ia_vars:
        args = draw(pick_args(avail, 0, 2))
        var_decl[name] = ["variable", name, {"ia": {"fn": draw(fn_desc(len(args))), "args": args}}]
        avail.append(name)
    if n_rxn == 0 and not surrogates:
        args = draw(pick_args(avail, 0, 3))
        d = ["reaction", "r0", {"fn": draw(fn_desc(len(args))), "args": args, "stoich": None}]
        decls.append(d)
        reactions.append(d)
        avail.append("r0")

    # stoichiometries: coefficients may name anything (they are evaluated after everything else)
    coef_pool = [a for a in avail]
    named_pool = [a for a in avail if a != "time" and a != "dat0"]
    # keep (sometimes) one variable untouched
    touchable = list(all_vars)
    if len(touchable) > 1 and draw(st.integers(0, 2)) == 0:
        touchable = touchable[:-1] if draw(st.booleans()) else touchable[1:]
    for d in reactions:
        k = draw(st.integers(1, min(3, len(touchable))))
        tgt = draw(st.lists(st.sampled_from(touchable), min_size=k, max_size=k, unique=True))
        d[2]["stoich"] = {v: draw(coef_value(coef_pool, named_pool, sign_stable_coefficients)) for v in tgt}
    for d in surrogates:
        outs = d[2]["outputs"]
        stoich = {}
        for o in outs:
            if draw(st.booleans()):
                k = draw(st.integers(1, min(2, len(touchable))))
                tgt = draw(st.lists(st.sampled_from(touchable), min_size=k, max_size=k, unique=True))
                # surrogate stoichiometries are documented as float | Derived (no named form)
                stoich[o] = {v: draw(coef_value(coef_pool, [], sign_stable_coefficients)) for v in tgt}
        d[2]["stoich"] = stoich

    if allow_readouts:
        for i in range(draw(st.integers(0, 2))):
            args = draw(pick_args([a for a in avail if a != "dat0"], 1, 3))
            decls.append(["readout", f"ro{i}", {"fn": draw(fn_desc(len(args))), "args": args}])

    decls.extend(var_decl[v] for v in all_vars)
    decls = draw(st.permutations(decls))
    return {"decls": [list(d) for d in decls]}


@st.composite
def state_for(draw, spec: dict) -> dict:
    from vlib.spec import var_names

    return {v: draw(value) for v in var_names(spec)}


time_value = st.one_of(st.just(0.0), st.integers(0, 800).map(lambda i: i / 8), st.floats(0, 100, allow_nan=False, allow_subnormal=False))


def structure_key(spec: dict):
    """Structural hash key with numeric payloads abstracted."""

    def strip(x):
        if isinstance(x, dict):
            return {k: strip(v) for k, v in x.items() if k not in ("c", "value", "values")}
        if isinstance(x, list):
            return [strip(v) for v in x]
        if isinstance(x, (int, float)):
            return "#"
        return x

    return strip(spec["decls"])


def features(spec: dict) -> set[str]:
    """Feature classes of a spec (used for non-triviality and the class histogram)."""
    from vlib.spec import Ref, decls_of

    ref = Ref(spec)
    f: set[str] = set()
    flux = set(ref.flux_names())
    sur_out = set(ref.provider)
    dyn_names = set()  # names whose value depends on state/time

    def depth(name: str, seen=()) -> int:
        k = ref.kind.get(name)
        if k in ("derived",):
            a = ref.payload[name]["args"]
            return 1 + max([depth(x) for x in a], default=0)
        return 0

    touched = set()
    for n, p in decls_of(spec, "reaction"):
        touched.update(p["stoich"])
    for n, p in decls_of(spec, "surrogate"):
        for o, stc in p["stoich"].items():
            touched.update(stc)
    vars_ = [n for n, _ in decls_of(spec, "variable")]
    if any(v not in touched for v in vars_):
        f.add("untouched_variable")
    if len(vars_) == 1:
        f.add("one_variable")
    dparams = set(ref.derived_parameters())
    for n, p in decls_of(spec, "derived"):
        if any(a in flux for a in p["args"]):
            f.add("derived_on_flux")
        if any(a in sur_out and a not in flux for a in p["args"]):
            f.add("derived_on_surrogate_output")
        if "time" in p["args"]:
            f.add("time_dependence")
        if "dat0" in p["args"]:
            f.add("data_dependence")
        if depth(n) >= 2:
            f.add("chain_depth>=2")
        if depth(n) >= 3:
            f.add("chain_depth>=3")
    for n, p in decls_of(spec, "reaction"):
        if "time" in p["args"]:
            f.add("time_dependence")

    def coef_feats(c):
        if isinstance(c, str):
            f.add("named_coefficient")
            if ref.kind.get(c) != "parameter" and c not in dparams:
                f.add("state_dependent_coefficient")
        elif isinstance(c, dict):
            f.add("computed_coefficient")
            if any(not (ref.kind.get(a) == "parameter" or a in dparams) for a in c["args"]):
                f.add("state_dependent_coefficient")
            if "time" in c["args"]:
                f.add("time_in_coefficient")
        elif isinstance(c, float) and c != int(c):
            f.add("fractional_coefficient")

    for n, p in decls_of(spec, "reaction"):
        for c in p["stoich"].values():
            coef_feats(c)
    for n, p in decls_of(spec, "surrogate"):
        f.add("surrogate")
        if len(p["outputs"]) > 1:
            f.add("multi_output_surrogate")
        for stc in p["stoich"].values():
            f.add("surrogate_flux")
            for c in stc.values():
                coef_feats(c)
    for k, n, p in spec["decls"]:
        if k in ("variable", "parameter") and "ia" in p:
            f.add(f"initial_assignment_{k}")
            if any(a in flux for a in p["ia"]["args"]):
                f.add("ia_on_flux")
            if any(ref.kind.get(a) == "derived" for a in p["ia"]["args"]):
                f.add("ia_on_derived")
            if any(ref.kind.get(a) in ("variable", "parameter") and "ia" in ref.payload[a] for a in p["ia"]["args"]):
                f.add("ia_on_ia")
    if decls_of(spec, "readout"):
        f.add("readout")
    if decls_of(spec, "data"):
        f.add("data")
    del dyn_names
    return f
