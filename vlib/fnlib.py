"""Function descriptors -> Python callables (inputs to MxlPy, not code under test).

A descriptor is JSON: {"kind": "poly"|"rat"|"multi"|"ma", "n": arity, "c": [...]}.
All functions are total and finite on finite inputs.
"""

from __future__ import annotations

from typing import Any, Callable


def _sc(a: Any) -> Any:
    """Scalarise a data-set argument (pd.Series / DataFrame) by summing it."""
    s = getattr(a, "sum", None)
    if s is not None and not isinstance(a, (int, float)) and hasattr(a, "index"):
        r = a.sum()
        if hasattr(r, "sum"):
            r = r.sum()
        return float(r)
    return a


def _poly_eval(c: list[float], a: tuple) -> Any:
    a = tuple(_sc(x) for x in a)
    n = len(a)
    r = c[0]
    for i in range(n):
        r = r + c[1 + i] * a[i]
    if n >= 1:
        r = r + c[n + 1] * a[0] * a[n - 1]
    return r


def _rat_eval(c: list[float], a: tuple) -> Any:
    a = tuple(_sc(x) for x in a)
    num = _poly_eval(c, a)
    if len(a) == 0:
        return num
    return num / (1.0 + a[0] * a[0])


def _ma_eval(c: list[float], a: tuple) -> Any:
    # mass action: product of all arguments times c[0]
    r = c[0]
    for x in a:
        r = r * _sc(x)
    return r


def _sq_eval(c: list[float], a: tuple) -> Any:
    # c[0] + sum c[1+i] * a_i^2 : sign-definite when all coefficients share a sign
    a = tuple(_sc(x) for x in a)
    r = c[0]
    for i, x in enumerate(a):
        r = r + c[1 + i] * x * x
    return r


_EVAL = {"poly": _poly_eval, "rat": _rat_eval, "ma": _ma_eval, "sq": _sq_eval}


def _fix_arity(n: int, g: Callable[..., Any]) -> Callable[..., Any]:
    if n == 0:
        return lambda: g()
    if n == 1:
        return lambda a0: g(a0)
    if n == 2:
        return lambda a0, a1: g(a0, a1)
    if n == 3:
        return lambda a0, a1, a2: g(a0, a1, a2)
    if n == 4:
        return lambda a0, a1, a2, a3: g(a0, a1, a2, a3)
    if n == 5:
        return lambda a0, a1, a2, a3, a4: g(a0, a1, a2, a3, a4)
    if n == 6:
        return lambda a0, a1, a2, a3, a4, a5: g(a0, a1, a2, a3, a4, a5)
    return lambda *a: g(*a)


def lib_fn(name: str, module: str = "rates") -> Callable[..., Any]:
    import importlib

    modname = module if "." in module else f"vlib.fnsrc.{module}"
    return getattr(importlib.import_module(modname), name)


def make(fd: dict) -> Callable[..., Any]:
    kind = fd["kind"]
    if kind == "lib":
        return lib_fn(fd["name"], fd.get("module", "rates"))  # the source-backed function object itself
    n = fd["n"]
    if kind == "multi":
        parts = fd["parts"]  # list of scalar descriptors of same arity

        def gm(*a: Any) -> tuple:
            return tuple(_EVAL[p["kind"]](p["c"], a) for p in parts)

        f = _fix_arity(n, gm)
    else:
        ev = _EVAL[kind]
        c = fd["c"]

        def g(*a: Any) -> Any:
            return ev(c, a)

        f = _fix_arity(n, g)
    f.__name__ = f"{kind}{n}"
    return f


def evaluate(fd: dict, args: list) -> Any:
    """Reference evaluation of a descriptor (used by refeval; shares only the arithmetic)."""
    kind = fd["kind"]
    if kind == "lib":
        return lib_fn(fd["name"], fd.get("module", "rates"))(*[_sc(a) for a in args])
    if kind == "multi":
        return tuple(_EVAL[p["kind"]](p["c"], tuple(args)) for p in fd["parts"])
    return _EVAL[kind](fd["c"], tuple(args))


def ncoef(kind: str, n: int) -> int:
    if kind == "ma":
        return 1
    if kind == "sq":
        return n + 1
    return n + 2
