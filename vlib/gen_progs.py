"""Grammar-based generator of Python function source for the translation checks (C06 ...).

A generated program is {"src": module source, "fn": name, "params": [...], "features": [...]}.
The module may import the fixed helper module `vhelpers` (written next to it by the check).
All evaluation points and literals are dyadic rationals, and everything that feeds a comparison,
`%` or `//` is kept exact in binary floating point, so CPython and a faithful symbolic translation
agree bit-for-bit on branch decisions.
"""

from __future__ import annotations

from hypothesis import strategies as st

HELPERS_SRC = '''
"""Helper functions called by generated programs (fixed, hand-written, all translatable)."""

K2 = 2.5
HALF = 0.5


class Consts:
    A = 1.5
    B = -0.5


def sub(x, y):
    return x - y


def lin(x, k):
    return k * x + 1.0


def ratio(x, y):
    return x / (1.0 + y * y)


def nested(x, y):
    return sub(y, x) * 2.0


def pick(x, y):
    if x > y:
        return x
    return y


def shifted(x, y):
    z = x + 1.0
    return z * y
'''

PARAMS = ["x", "y", "z", "w"]
LITS = ["0.0", "1.0", "2.0", "0.5", "-1.5", "3.0", "4.0", "1", "2", "3", "-1.0", "0.25"]
CMP_OPS = ["<", "<=", ">", ">=", "==", "!="]


class Gen:
    def __init__(self, draw, params):
        self.draw = draw
        self.params = params
        self.feats: set[str] = set()
        self.counter = 0
        self.inexact: set[str] = set()  # locals that may hold a value that is not exact in binary floating point

    def rhs(self, env: list[str], target: str) -> str:
        """Right-hand side of an assignment; remembers whether the target stays exact."""
        if self.draw(st.booleans()):
            return self.exact(env, 2)
        self.inexact.add(target)
        return self.expr(env, 2)

    def fresh(self) -> str:
        self.counter += 1
        return f"t{self.counter}"

    # -- expressions ------------------------------------------------------
    def exact(self, env: list[str], depth: int) -> str:
        """Expression whose value is exact on dyadic inputs (safe inside comparisons, % and //)."""
        d = self.draw
        if depth <= 0 or d(st.integers(0, 2)) == 0:
            k = d(st.integers(0, 4))
            cands = [e for e in env if e not in self.inexact]
            if k <= 2 and cands:
                return d(st.sampled_from(cands))
            if k <= 3:
                return d(st.sampled_from(LITS))
            self.feats.add("named_constant")
            return d(st.sampled_from(["K1", "vhelpers.K2", "Consts.A", "HALF"]))
        op = d(st.sampled_from(["+", "-", "*", "neg", "half"]))
        a = self.exact(env, depth - 1)
        if op == "neg":
            return f"(-{a})"
        if op == "half":
            return f"({a} / 2.0)"
        b = self.exact(env, depth - 1)
        return f"({a} {op} {b})"

    def cond(self, env: list[str], depth: int) -> str:
        d = self.draw
        a = self.exact(env, 1)
        b = self.exact(env, 1)
        op = d(st.sampled_from(CMP_OPS))
        if op in ("==", "!="):
            self.feats.add("eq_compare")
        if d(st.integers(0, 5)) == 0:
            c = self.exact(env, 1)
            op2 = d(st.sampled_from(["<", "<=", ">", ">="]))
            self.feats.add("chained_compare")
            return f"{a} {op} {b} {op2} {c}"
        return f"{a} {op} {b}"

    def expr(self, env: list[str], depth: int) -> str:
        d = self.draw
        if depth <= 0:
            return self.exact(env, 0)
        k = d(st.sampled_from(["exact", "bin", "bin", "div", "pow", "ifexp", "helper", "helper", "unary", "mod", "constcall", "sqrt"]))
        if k == "exact":
            return self.exact(env, depth)
        if k == "bin":
            op = d(st.sampled_from(["+", "-", "*"]))
            return f"({self.expr(env, depth - 1)} {op} {self.expr(env, depth - 1)})"
        if k == "div":
            self.feats.add("division")
            return f"({self.expr(env, depth - 1)} / (1.0 + {self.exact(env, 1)} * {self.exact(env, 1)}))"
        if k == "pow":
            self.feats.add("power")
            return f"({self.expr(env, depth - 1)} ** {d(st.sampled_from(['2', '3', '2.0']))})"
        if k == "sqrt":
            self.feats.add("power")
            return f"((1.0 + {self.exact(env, 1)} ** 2) ** 0.5)"
        if k == "unary":
            return f"({d(st.sampled_from(['-', '+']))}{self.expr(env, depth - 1)})"
        if k == "ifexp":
            self.feats.add("conditional_expression")
            return f"({self.expr(env, depth - 1)} if {self.cond(env, 1)} else {self.expr(env, depth - 1)})"
        if k == "mod":
            self.feats.add("mod_or_floordiv")
            return f"({self.exact(env, 1)} {d(st.sampled_from(['%', '//']))} {d(st.sampled_from(['2.0', '0.5', '4.0', '-2.0']))})"
        if k == "constcall":
            self.feats.add("known_fn_on_constants")
            return d(st.sampled_from(["math.sqrt(4.0)", "math.floor(2.5)", "math.pi", "math.e", "math.exp(1.0)", "math.sqrt(4.0)", "math.floor(2.5)", "math.pi", "math.e", "math.exp(1.0)", "abs(-2.0)", "max(1.0, 2.5)"]))
        # helper calls, often with arguments in swapped order / own names of the callee
        self.feats.add("nested_call")
        a, b = self.expr(env, depth - 1), self.expr(env, depth - 1)
        form = d(st.sampled_from(["sub({0}, {1})", "vhelpers.lin({0}, {1})", "ratio({0}, {1})", "nested({0}, {1})", "vhelpers.pick({0}, {1})", "shifted({0}, {1})", "sub({1}, {0})"]))
        if "pick" in form:
            # pick compares its arguments: keep them exact
            a, b = self.exact(env, 1), self.exact(env, 1)
        if set(env) & {"x", "y"} and d(st.booleans()):
            # pass the callee's own parameter names in the other order
            if "x" in env and "y" in env:
                a, b = "y", "x"
                self.feats.add("call_with_swapped_own_names")
        return form.format(a, b)

    # -- statements -------------------------------------------------------------
    def block(self, env: list[str], depth: int, indent: str, must_return: bool) -> tuple[list[str], list[str], bool]:
        """-> (lines, names definitely assigned afterwards, always returns)"""
        d = self.draw
        lines: list[str] = []
        env = list(env)
        for _ in range(d(st.integers(0, 2))):
            kind = d(st.sampled_from(["assign", "assign", "reassign", "reassign", "tuple", "if", "if"]))
            if kind == "assign":
                n = self.fresh()
                lines.append(f"{indent}{n} = {self.rhs(env, n)}")
                env.append(n)
                self.feats.add("local_assignment")
            elif kind == "reassign":
                # locals and (legal in Python) the function's own parameters
                locs = [e for e in env if e.startswith("t")] + (list(self.params) if d(st.integers(0, 2)) == 0 else [])
                if locs:
                    n = d(st.sampled_from(locs))
                    lines.append(f"{indent}{n} = {self.rhs(env, n)}")
                    self.feats.add("reassignment")
                    if n in self.params:
                        self.feats.add("parameter_reassignment")
            elif kind == "tuple":
                n1, n2 = self.fresh(), self.fresh()
                self.inexact.update([n1, n2])
                lines.append(f"{indent}{n1}, {n2} = {self.expr(env, 1)}, {self.expr(env, 1)}")
                env += [n1, n2]
                self.feats.add("tuple_assignment")
            elif depth > 0:
                ls, env2, ret = self.if_stmt(env, depth - 1, indent)
                lines += ls
                env = env2
                if ret:
                    return lines, env, True
        if must_return or d(st.integers(0, 2)) == 0:
            if depth > 0 and d(st.integers(0, 2)) == 0:
                ls, env2, ret = self.if_stmt(env, depth - 1, indent)
                lines += ls
                env = env2
                if ret:
                    return lines, env, True
            lines.append(f"{indent}return {self.expr(env, 2)}")
            return lines, env, True
        if not lines:
            n = self.fresh()
            lines.append(f"{indent}{n} = {self.rhs(env, n)}")
            env.append(n)
        return lines, env, False

    def if_stmt(self, env: list[str], depth: int, indent: str) -> tuple[list[str], list[str], bool]:
        d = self.draw
        lines = [f"{indent}if {self.cond(env, 1)}:"]
        inner = indent + "    "
        shape = d(st.sampled_from(["ret", "assign", "assign", "mixed"]))
        # variables assigned in branches: pre-existing locals get re-assigned (interesting), or a new
        # name assigned in every branch
        locs = [e for e in env if e.startswith("t")]
        branches: list[tuple[list[str], list[str], bool]] = []
        n_elif = d(st.integers(0, 1))
        has_else = d(st.integers(0, 2)) > 0
        newname = self.fresh()

        def branch() -> tuple[list[str], list[str], bool]:
            want_ret = shape == "ret" or (shape == "mixed" and d(st.booleans()))
            ls, e2, ret = self.block(env, depth, inner, want_ret)
            if not ret:
                if (locs or self.params) and d(st.booleans()):
                    tgt = d(st.sampled_from(locs + (list(self.params) if d(st.integers(0, 2)) == 0 else []) or list(self.params)))
                    ls.append(f"{inner}{tgt} = {self.rhs(e2, tgt)}")
                    self.feats.add("reassignment_in_branch")
                ls.append(f"{inner}{newname} = {self.rhs(e2, newname)}")
                e2 = [*e2, newname]
                self.feats.add("assignment_in_branch")
            else:
                self.feats.add("return_in_branch")
            return ls, e2, ret

        b = branch()
        lines += b[0]
        branches.append(b)
        for _ in range(n_elif):
            lines.append(f"{indent}elif {self.cond(env, 1)}:")
            b = branch()
            lines += b[0]
            branches.append(b)
            self.feats.add("elif")
        if has_else:
            lines.append(f"{indent}else:")
            b = branch()
            lines += b[0]
            branches.append(b)
            self.feats.add("else")
        all_ret = has_else and all(r for _, _, r in branches)
        if all_ret:
            return lines, env, True
        # definitely assigned afterwards: names assigned in every non-returning branch, and only if an else exists
        after = list(env)
        nonret = [e for _, e, r in branches if not r]
        if has_else and nonret:
            common = set(nonret[0])
            for e in nonret[1:]:
                common &= set(e)
            after = [n for n in dict.fromkeys([*env, *nonret[0]]) if n in common or n in env]
        if any(not r for _, _, r in branches):
            self.feats.add("fallthrough_after_conditional")
        return lines, after, False


UNSUPPORTED = {
    "augassign": ["    u = {p0}", "    u += 1.0", "    return u * {p0}"],
    "annassign": ["    u: float = {p0} * 2.0", "    return u + 1.0"],
    "for_loop": ["    u = {p0}", "    for _ in range(2):", "        u = u * 2.0", "    return u"],
    "while_loop": ["    u = {p0}", "    n = 0", "    while n < 2:", "        u = u + 1.0", "        n = n + 1", "    return u"],
    "bool_and": ["    if {p0} > 0.0 and {p0} < 2.0:", "        return 1.0", "    return {p0}"],
    "bool_or": ["    if {p0} < 0.0 or {p0} > 2.0:", "        return 1.0", "    return {p0}"],
    "bool_not": ["    if not {p0} > 0.0:", "        return 1.0", "    return {p0}"],
    "walrus": ["    return (u := {p0} * 2.0) + u"],
    "keyword_call": ["    return vhelpers.lin({p0}, k=2.0)"],
    "nested_def": ["    def g(v):", "        return v * 3.0", "    return g({p0})"],
    "try_except": ["    try:", "        u = 1.0 / {p0}", "    except ZeroDivisionError:", "        u = 0.0", "    return u"],
    "assert_stmt": ["    assert {p0} == {p0}", "    u = {p0} + 1.0", "    return u"],
    "del_stmt": ["    u = {p0}", "    v = u * 2.0", "    del u", "    return v"],
    "starred_call": ["    args = ({p0}, 2.0)", "    return sub(*args)"],
    "subscript": ["    u = [{p0}, 2.0]", "    return u[0] * 3.0"],
    "lambda_call": ["    g = lambda v: v + 1.0", "    return g({p0})"],
    "math_on_symbol": ["    return math.exp({p0}) + 1.0"],
    "abs_on_symbol": ["    return abs({p0}) + 1.0"],
    "docstring_then_return": ['    """doc."""', "    return {p0} * 2.0"],
    "pass_then_return": ["    pass", "    return {p0} * 2.0"],
    "module_class_attribute": ["    return vhelpers.Consts.B * {p0}"],
    "chained_assignment": ["    u = v = {p0} * 2.0", "    return u + v"],
    "tuple_swap": ["    u, v = {p0}, 2.0", "    u, v = v, u", "    return u - v"],
    "unpack_call": ["    u, v = divmod({p0}, 2.0)", "    return u"],
    "is_compare": ["    if {p0} is None:", "        return 0.0", "    return {p0}"],
}


@st.composite
def program(draw, unsupported_rate: int = 6) -> dict:
    nparams = draw(st.integers(1, 4))
    params = PARAMS[:nparams]
    if draw(st.integers(0, 3)) == 0:
        params = draw(st.permutations(params))
    g = Gen(draw, list(params))
    header = ["import math", "", "import vhelpers", "from vhelpers import HALF, Consts, nested, ratio, shifted, sub", "", "K1 = 1.25", "", ""]
    if draw(st.integers(0, unsupported_rate - 1)) == 0:
        kind = draw(st.sampled_from(sorted(UNSUPPORTED)))
        body = [ln.format(p0=params[0]) for ln in UNSUPPORTED[kind]]
        g.feats.add("beyond:" + kind)
    else:
        body, _, ret = g.block(list(params), 2, "    ", True)
        assert ret
    src = "\n".join([*header, f"def f({', '.join(params)}):", *body, ""])
    # renaming of arguments onto model names
    ren_kind = draw(st.sampled_from(["none", "fresh", "permute_own", "permute_own", "partial_overlap"]))
    if ren_kind == "none":
        model_args = None
    elif ren_kind == "fresh":
        model_args = [f"m{i}" for i in range(nparams)]
    elif ren_kind == "permute_own":
        model_args = list(draw(st.permutations(list(params))))
        if model_args == list(params) and nparams > 1:
            model_args = model_args[1:] + model_args[:1]
    else:
        model_args = [params[(i + 1) % nparams] if i % 2 == 0 else f"m{i}" for i in range(nparams)]
        if len(set(model_args)) != len(model_args):
            model_args = [f"m{i}" for i in range(nparams)]
            ren_kind = "fresh"
    if model_args is not None and nparams > 1 and ren_kind in ("permute_own", "partial_overlap"):
        g.feats.add("rename_onto_own_names")
    return {"src": src, "fn": "f", "params": list(params), "model_args": model_args, "rename": ren_kind, "features": sorted(g.feats)}


GRID = [-2.0, -1.5, -1.0, -0.5, 0.0, 0.25, 0.5, 1.0, 1.25, 1.5, 2.0, 2.5, 3.0, 4.0]


@st.composite
def points(draw, nparams: int, n: int = 12) -> list[list[float]]:
    pts = [[draw(st.sampled_from(GRID)) for _ in range(nparams)] for _ in range(n)]
    # diagonal points hit equality branches
    v = draw(st.sampled_from(GRID))
    pts.append([v] * nparams)
    pts.append([0.0] * nparams)
    return pts
