"""Picklable work functions for the caching / crash-injection check (C19)."""

from __future__ import annotations

import os
import uuid


def payload(kind: str, key, size: int):
    """Deterministic result for a key."""
    if kind == "floats":
        return {"key": str(key), "values": [float(i) + 0.5 for i in range(size)]}
    if kind == "bytes":
        return (str(key), bytes((i * 7 + len(str(key))) % 251 for i in range(size)))
    if kind == "array":
        import numpy as np

        return np.arange(size, dtype=float) * 0.25 + len(str(key))
    raise ValueError(kind)


def work(v):
    """v = (key, kind, size, marker_dir, die_at_key)"""
    key, kind, size, marker_dir, die_at_key = v
    if die_at_key is not None and str(key) == str(die_at_key):
        os._exit(137)  # killed before computing this key (i.e. after the previous result file was closed)
    # one empty marker file per computation (no bytes written: not subject to the file-size limit)
    fd = os.open(os.path.join(marker_dir, f"{key}-{uuid.uuid4().hex}"), os.O_CREAT | os.O_WRONLY, 0o644)
    os.close(fd)
    return payload(kind, key, size)
