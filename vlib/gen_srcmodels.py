"""Surrogate-free model specs over the source-backed function library (vlib/fnsrc/rates.py).

Used by the checks whose subject reads function *source* (C07, C08, C11, C12).
Same spec format as vlib.spec; function descriptors are {"kind": "lib", "name": ..., "n": arity}.
"""

from __future__ import annotations

from hypothesis import strategies as st

from vlib.fnsrc import rates

BY_ARITY: dict[int, list[str]] = {}
for _n, _a in rates.ARITY.items():
    if not _n.startswith("untranslatable"):
        BY_ARITY.setdefault(_a, []).append(_n)

pval = st.sampled_from([0.25, 0.5, 0.75, 1.0, 1.5, 2.0, 2.5, 3.0, 4.0])
xval = st.sampled_from([0.25, 0.5, 1.0, 1.5, 2.0, 3.0, 5.0])


def lib(name: str) -> dict:
    return {"kind": "lib", "name": name, "n": rates.ARITY[name]}


@st.composite
def call(draw, avail: list[str], *, names: list[str] | None = None, must: list[str] | None = None, max_arity: int = 4) -> tuple[dict, list[str]]:
    """Pick a library function and arguments for it."""
    pool = names or [n for a, ns in BY_ARITY.items() if a <= max_arity for n in ns]
    name = draw(st.sampled_from(sorted(pool)))
    n = rates.ARITY[name]
    args = [draw(st.sampled_from(avail)) for _ in range(n)]
    if must and n > 0 and draw(st.booleans()):
        args[draw(st.integers(0, n - 1))] = draw(st.sampled_from(must))
    return lib(name), args


@st.composite
def src_spec(
    draw,
    *,
    max_par: int = 4,
    max_var: int = 4,
    max_nodes: int = 6,
    allow_time: bool = True,
    allow_ia: bool = True,
    allow_named_coef: bool = True,
    allow_computed_coef: bool = True,
    allow_flux_derived: bool = True,
    fn_names: list[str] | None = None,
) -> dict:
    n_par = draw(st.integers(1, max_par))
    n_var = draw(st.integers(1, max_var))
    decls: list[list] = []
    base: list[str] = []
    for i in range(n_par):
        decls.append(["parameter", f"p{i}", {"value": draw(pval)}])
        base.append(f"p{i}")
    for i in range(n_var):
        decls.append(["variable", f"x{i}", {"value": draw(xval)}])
        base.append(f"x{i}")
    if allow_time and draw(st.integers(0, 3)) == 0:
        base.append("time")
    avail = list(base)
    reactions: list[list] = []
    counters = {"d": 0, "r": 0, "q": 0}
    kinds = ["derived", "derived", "reaction", "reaction"] + (["ia_par"] if allow_ia else [])
    for _ in range(draw(st.integers(1, max_nodes))):
        kind = draw(st.sampled_from(kinds))
        nonbase = [a for a in avail if a not in base and (allow_flux_derived or not a.startswith("r"))]
        pool = [a for a in avail if allow_flux_derived or not a.startswith("r")]
        fd, args = draw(call(pool, names=fn_names, must=nonbase or None))
        if kind == "derived":
            name = f"d{counters['d']}"
            counters["d"] += 1
            decls.append(["derived", name, {"fn": fd, "args": args}])
            avail.append(name)
        elif kind == "reaction":
            name = f"r{counters['r']}"
            counters["r"] += 1
            d = ["reaction", name, {"fn": fd, "args": args, "stoich": None}]
            decls.append(d)
            reactions.append(d)
            avail.append(name)
        else:
            name = f"q{counters['q']}"
            counters["q"] += 1
            # evaluated once at t=0 from the initial state
            decls.append(["parameter", name, {"ia": {"fn": fd, "args": args}}])
            avail.append(name)
    if not reactions:
        fd, args = draw(call(avail, names=fn_names))
        d = ["reaction", "r0", {"fn": fd, "args": args, "stoich": None}]
        decls.append(d)
        reactions.append(d)
        avail.append("r0")
    all_vars = [f"x{i}" for i in range(n_var)]
    touchable = list(all_vars)
    if len(touchable) > 1 and draw(st.integers(0, 2)) == 0:
        touchable = touchable[:-1] if draw(st.booleans()) else touchable[1:]
    params_only = [a for a in avail if a.startswith(("p", "q"))]
    for d in reactions:
        k = draw(st.integers(1, min(3, len(touchable))))
        tgt = draw(st.lists(st.sampled_from(touchable), min_size=k, max_size=k, unique=True))
        sto = {}
        for v in tgt:
            which = draw(st.sampled_from(["int", "int", "int2", "frac", "named", "computed_p", "computed_s"]))
            if which == "int":
                sto[v] = draw(st.sampled_from([-1, 1]))
            elif which == "int2":
                sto[v] = draw(st.sampled_from([-2, 2, 3]))
            elif which == "frac":
                sto[v] = draw(st.sampled_from([-0.5, 0.5, 1.5, -2.5]))
            elif which == "named" and allow_named_coef:
                sto[v] = draw(st.sampled_from(params_only))
            elif which == "computed_p" and allow_computed_coef:
                fd, args = draw(call(params_only, names=["twice", "scaled", "add2", "mul2", "neg", "constant"]))
                sto[v] = {"fn": fd, "args": args}
            elif which == "computed_s" and allow_computed_coef:
                fd, args = draw(call([a for a in avail if a != "time"], names=["twice", "scaled", "add2", "mul2", "neg", "div_safe"]))
                sto[v] = {"fn": fd, "args": args}
            else:
                sto[v] = draw(st.sampled_from([-1, 1]))
        d[2]["stoich"] = sto
    decls = draw(st.permutations(decls))
    return {"decls": [list(d) for d in decls]}


def derived_order_is_dependency_order(spec: dict) -> bool:
    seen: set[str] = set()
    names = {n for k, n, _ in spec["decls"] if k == "derived"}
    for k, n, p in spec["decls"]:
        if k == "derived":
            if any(a in names and a not in seen for a in p["args"]):
                return False
            seen.add(n)
    return True


def extra_features(spec: dict) -> set[str]:
    f: set[str] = set()
    if not derived_order_is_dependency_order(spec):
        f.add("derived_declared_out_of_order")
    for k, n, p in spec["decls"]:
        if k == "reaction":
            if p["fn"]["name"].startswith("cond"):
                f.add("conditional_rate_law")
            for c in p["stoich"].values():
                if isinstance(c, int) and abs(c) > 1:
                    f.add("integer_coefficient_abs>1")
        if k == "derived" and p["fn"]["name"].startswith("cond"):
            f.add("conditional_rate_law")
        if k in ("derived", "reaction") and p["fn"]["name"] in ("nested_ma", "scaled"):
            f.add("nested_call_or_module_constant")
    return f
