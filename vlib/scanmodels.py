"""Picklable model factories for checks that cross a process boundary (C09, C18, C19)."""

from __future__ import annotations

import time as _time

from vlib import linear


def tenth(x: float) -> float:
    return 0.1 * x


def double(k: float) -> float:
    return 2.0 * k


def quad(x: float, k: float) -> float:
    return k * x * x


def inv_rate(k: float, z: float) -> float:
    return k / z


def delay(seconds: float) -> float:
    """Sleeps (schedule perturbation) and contributes nothing."""
    if seconds > 0:
        _time.sleep(min(float(seconds), 0.5))
    return 0.0


def build(md: dict):
    """md = {"lin": lin, "variant": plain|ia|derived|quad|zerodiv, "delay": bool}"""
    from mxlpy.types import InitialAssignment

    lin = md["lin"]
    m = linear.build(lin)
    v = md["variant"]
    if v == "ia":
        # a parameter computed from an initial value, used as an extra degradation rate of the last variable
        last = lin["n"] - 1
        m.add_parameter("kq", InitialAssignment(fn=tenth, args=["x0"]))
        m.add_reaction("vq", linear.first_order, args=[f"x{last}", "kq"], stoichiometry={f"x{last}": -1})
    elif v == "derived":
        m.add_derived("kdd", double, args=["kd0"])
        m.add_reaction("vq", linear.first_order, args=["x0", "kdd"], stoichiometry={"x0": -1})
    elif v == "quad":
        m.add_parameter("kquad", 0.0)
        m.add_reaction("vquad", quad, args=["x0", "kquad"], stoichiometry={"x0": 1})
    elif v == "zerodiv":
        m.add_parameter("kz", 1.0)
        m.add_reaction("vz", inv_rate, args=["kin0", "kz"], stoichiometry={"x0": 1})
    if md.get("delay"):
        m.add_parameter("zz_delay", 0.0)
        m.add_derived("zz_dly", delay, args=["zz_delay"])
    return m
