"""Picklable power-law networks for the control-analysis check (C18) with an analytic oracle.

net = {"n": nvars, "x0": [...], "reactions": [{"name", "sub": i|None, "prod": j|None, "k": value, "order": value, "order_is_param": bool}]}
rate = k (influx, sub None) or k * x_sub ** order.
"""

from __future__ import annotations

import numpy as np


def const_rate(k):
    return k


def power_rate(s, k, n):
    return k * s**n


def build(net: dict):
    from mxlpy import Model

    m = Model()
    for i, v in enumerate(net["x0"]):
        m.add_variable(f"x{i}", v)
    for r in net["reactions"]:
        m.add_parameter(f"k_{r['name']}", r["k"])
        if r["sub"] is not None:
            m.add_parameter(f"n_{r['name']}", r["order"])
    for r in net["reactions"]:
        sto = {}
        if r["sub"] is not None:
            sto[f"x{r['sub']}"] = -1
        if r["prod"] is not None:
            sto[f"x{r['prod']}"] = sto.get(f"x{r['prod']}", 0) + 1
        if r["sub"] is None:
            m.add_reaction(r["name"], const_rate, args=[f"k_{r['name']}"], stoichiometry=sto)
        else:
            m.add_reaction(r["name"], power_rate, args=[f"x{r['sub']}", f"k_{r['name']}", f"n_{r['name']}"], stoichiometry=sto)
    return m


def param_names(net: dict) -> list[str]:
    names = []
    for r in net["reactions"]:
        names.append(f"k_{r['name']}")
        if r["sub"] is not None:
            names.append(f"n_{r['name']}")
    return names


def stoich(net: dict) -> np.ndarray:
    N = np.zeros((net["n"], len(net["reactions"])))
    for j, r in enumerate(net["reactions"]):
        if r["sub"] is not None:
            N[r["sub"], j] -= 1
        if r["prod"] is not None:
            N[r["prod"], j] += 1
    return N


def rates(net: dict, x, p: dict | None = None) -> np.ndarray:
    v = []
    for r in net["reactions"]:
        k = r["k"] if p is None else p[f"k_{r['name']}"]
        if r["sub"] is None:
            v.append(k)
        else:
            n = r["order"] if p is None else p[f"n_{r['name']}"]
            v.append(k * x[r["sub"]] ** n)
    return np.array(v, dtype=float)


def dv_dx(net: dict, x) -> np.ndarray:
    J = np.zeros((len(net["reactions"]), net["n"]))
    for j, r in enumerate(net["reactions"]):
        if r["sub"] is not None:
            J[j, r["sub"]] = r["k"] * r["order"] * x[r["sub"]] ** (r["order"] - 1)
    return J


def dv_dp(net: dict, x) -> tuple[np.ndarray, list[str]]:
    names = param_names(net)
    J = np.zeros((len(net["reactions"]), len(names)))
    for j, r in enumerate(net["reactions"]):
        if r["sub"] is None:
            J[j, names.index(f"k_{r['name']}")] = 1.0
        else:
            xs = x[r["sub"]]
            J[j, names.index(f"k_{r['name']}")] = xs ** r["order"]
            J[j, names.index(f"n_{r['name']}")] = r["k"] * xs ** r["order"] * np.log(xs)
    return J, names


def steady_state(net: dict) -> np.ndarray | None:
    """Newton iteration on the analytic right-hand side from the initial state (positive orthant)."""
    N = stoich(net)
    x = np.array(net["x0"], dtype=float)
    # relax by explicit integration first (robust), then polish with Newton
    from scipy.integrate import solve_ivp

    sol = solve_ivp(lambda t, y: N @ rates(net, np.maximum(y, 1e-12)), (0, 2000), x, method="LSODA", rtol=1e-10, atol=1e-12)
    if not sol.success:
        return None
    x = np.maximum(sol.y[:, -1], 1e-9)
    for _ in range(50):
        f = N @ rates(net, x)
        J = N @ dv_dx(net, x)
        try:
            dx = np.linalg.solve(J, -f)
        except np.linalg.LinAlgError:
            return None
        x = x + dx
        if np.any(x <= 0) or not np.all(np.isfinite(x)):
            return None
        if np.abs(dx).max() < 1e-14 * (1 + np.abs(x).max()):
            break
    if np.abs(N @ rates(net, x)).max() > 1e-10:
        return None
    return x
