"""Execute generated stand-alone model functions: CPython, node (type-stripped TypeScript), rustc, Julia-subset checker."""

from __future__ import annotations

import json
import re
import shutil
import subprocess
from pathlib import Path


def have(tool: str) -> bool:
    return shutil.which(tool) is not None


# ----------------------------------------------------------------------
# Python


def run_py(src: str, t: float, y: list[float], free: list[float]) -> dict:
    ns: dict = {}
    try:
        exec(compile(src, "<generated>", "exec"), ns)  # noqa: S102
    except Exception as e:  # noqa: BLE001
        return {"ok": False, "stage": "not-well-formed", "error": f"{type(e).__name__}: {e}"[:200]}
    try:
        r = ns["model"](t, list(y), *free)
    except Exception as e:  # noqa: BLE001
        return {"ok": False, "stage": "raises", "error": f"{type(e).__name__}: {e}"[:200]}
    try:
        return {"ok": True, "value": [float(v) for v in r]}
    except Exception as e:  # noqa: BLE001
        return {"ok": False, "stage": "bad-return", "error": f"{type(e).__name__}: {e}; returned {r!r}"[:200]}


# ----------------------------------------------------------------------
# TypeScript via node

_TS_ANN = re.compile(r":\s*number(\[\])?")

_JS_DRIVER = r"""
const fs = require('fs');
const cases = JSON.parse(fs.readFileSync(process.argv[2], 'utf8'));
const out = [];
for (const c of cases) {
  let f;
  try { f = (0, eval)('(' + c.src + ')'); }
  catch (e) { out.push({ok: false, stage: 'not-well-formed', error: String(e).slice(0, 200)}); continue; }
  try {
    const r = f(...c.args);
    if (!Array.isArray(r)) { out.push({ok: false, stage: 'bad-return', error: 'returned ' + String(r)}); continue; }
    out.push({ok: true, value: r.map(v => (typeof v === 'number' ? (Number.isFinite(v) ? v : String(v)) : 'non-number:' + String(v)))});
  } catch (e) { out.push({ok: false, stage: 'raises', error: String(e).slice(0, 200)}); }
}
console.log(JSON.stringify(out));
"""


def strip_ts(src: str) -> str:
    js = _TS_ANN.sub("", src).rstrip()
    if js.endswith(";"):
        js = js[:-1]
    return js


def run_ts_batch(items: list[tuple[str, float, list[float], list[float]]], work: Path) -> list[dict]:
    work.mkdir(parents=True, exist_ok=True)
    (work / "driver.js").write_text(_JS_DRIVER)
    cases = [{"src": strip_ts(src), "args": [t, y, *free]} for src, t, y, free in items]
    (work / "cases.json").write_text(json.dumps(cases))
    p = subprocess.run(["node", str(work / "driver.js"), str(work / "cases.json")], capture_output=True, text=True, timeout=120, check=False)
    if p.returncode != 0:
        return [{"ok": False, "stage": "harness", "error": p.stderr[:300]} for _ in items]
    res = json.loads(p.stdout)
    for r in res:
        if r.get("ok"):
            vals = []
            for v in r["value"]:
                if isinstance(v, (int, float)):
                    vals.append(float(v))
                else:
                    r["ok"] = False
                    r["stage"] = "bad-return"
                    r["error"] = f"element {v}"
                    break
            else:
                r["value"] = vals
    return res


# ----------------------------------------------------------------------
# Rust via rustc


def _rs_main(items, alive: list[bool]) -> tuple[str, dict[int, tuple[int, int]]]:
    lines: list[str] = ["#![allow(warnings)]"]
    spans: dict[int, tuple[int, int]] = {}
    for i, (src, t, y, free) in enumerate(items):
        if not alive[i]:
            continue
        start = len(lines) + 1
        body = src.replace("fn model(", f"fn model_{i}(", 1)
        lines.extend(body.split("\n"))
        spans[i] = (start, len(lines))
    lines.append("fn main() {")
    for i, (src, t, y, free) in enumerate(items):
        if not alive[i]:
            continue
        arr = ", ".join(f"{v!r}_f64" for v in y)
        fr = "".join(f", {v!r}_f64" for v in free)
        lines.append(f"    let r = model_{i}({t!r}_f64, &[{arr}]{fr});")
        lines.append(f'    print!("{i}:"); for v in r.iter() {{ print!(" {{:e}}", v); }} println!("");')
    lines.append("}")
    return "\n".join(lines) + "\n", spans


def run_rs_batch(items: list[tuple[str, float, list[float], list[float]]], work: Path) -> list[dict]:
    work.mkdir(parents=True, exist_ok=True)
    n = len(items)
    alive = [True] * n
    res: list[dict | None] = [None] * n
    for _ in range(6):
        if not any(alive):
            break
        src, spans = _rs_main(items, alive)
        (work / "main.rs").write_text(src)
        p = subprocess.run(["rustc", "--edition", "2021", "-o", str(work / "main"), str(work / "main.rs")], capture_output=True, text=True, timeout=300, cwd=str(work), check=False)
        if p.returncode == 0:
            q = subprocess.run([str(work / "main")], capture_output=True, text=True, timeout=60, check=False)
            for line in q.stdout.splitlines():
                k, _, rest = line.partition(":")
                try:
                    res[int(k)] = {"ok": True, "value": [float(x) for x in rest.split()]}
                except ValueError:
                    res[int(k)] = {"ok": False, "stage": "bad-return", "error": line[:200]}
            if q.returncode != 0:
                for i in range(n):
                    if alive[i] and res[i] is None:
                        res[i] = {"ok": False, "stage": "raises", "error": q.stderr[:200]}
            break
        # map compiler errors back to functions
        bad: dict[int, str] = {}
        cur_msg = ""
        for line in p.stderr.splitlines():
            if line.startswith("error"):
                cur_msg = line[:160]
            m = re.search(r"--> .*main\.rs:(\d+):(\d+)", line)
            if m and cur_msg:
                ln = int(m.group(1))
                for i, (a, b) in spans.items():
                    if a <= ln <= b and i not in bad:
                        bad[i] = cur_msg
        if not bad:
            for i in range(n):
                if alive[i]:
                    res[i] = {"ok": False, "stage": "harness", "error": p.stderr[:300]}
            break
        for i, msg in bad.items():
            alive[i] = False
            res[i] = {"ok": False, "stage": "not-well-formed", "error": msg}
    return [r if r is not None else {"ok": False, "stage": "harness", "error": "no result"} for r in res]


# ----------------------------------------------------------------------
# Julia: structural well-formedness of what a correct generator would emit

_JL_IDENT = re.compile(r"[A-Za-z_][A-Za-z_0-9]*")
_JL_BUILTINS = {"exp", "log", "sqrt", "abs", "min", "max", "sin", "cos", "tan", "floor", "ceil", "pi", "true", "false", "time"}


def check_jl(src: str, var_names: list[str], free: list[str]) -> dict:
    """No Julia is installed: decide well-formedness structurally (every name used is bound before,
    destructuring is valid Julia, the returned names are bound, one derivative per variable)."""
    lines = src.split("\n")
    if not lines or not lines[0].startswith("function model(time, variables"):
        return {"ok": False, "stage": "not-well-formed", "error": "header"}
    if lines[-1].strip() != "end":
        return {"ok": False, "stage": "not-well-formed", "error": "missing end"}
    bound = {"time", "variables", *free}
    ret = None
    for ln in lines[1:-1]:
        s = ln.strip()
        if not s:
            continue
        if s.startswith("return"):
            ret = s[len("return") :].strip()
            continue
        if "=" not in s:
            return {"ok": False, "stage": "not-well-formed", "error": f"statement {s[:60]}"}
        lhs, _, rhs = s.partition("=")
        lhs, rhs = lhs.strip(), rhs.strip()
        if rhs.startswith("*"):
            return {"ok": False, "stage": "not-well-formed", "error": f"destructuring-splat: {s[:60]}"}
        for name in _JL_IDENT.findall(re.sub(r"\d+\.?\d*(e[+-]?\d+)?", " ", rhs)):
            if name not in bound and name not in _JL_BUILTINS:
                return {"ok": False, "stage": "not-well-formed", "error": f"undefined-name {name} in {s[:60]}"}
        for name in [x.strip() for x in lhs.split(",")]:
            if not _JL_IDENT.fullmatch(name):
                return {"ok": False, "stage": "not-well-formed", "error": f"assignment-target {lhs[:40]}"}
            bound.add(name)
    if ret is None:
        return {"ok": False, "stage": "not-well-formed", "error": "no return"}
    names = [x.strip() for x in ret.split(",")] if ret not in ("()", "") else []
    for name in names:
        if name not in bound:
            return {"ok": False, "stage": "not-well-formed", "error": f"undefined-name {name} in return"}
    if len(names) != len(var_names):
        return {"ok": False, "stage": "bad-return", "error": f"{len(names)} derivatives for {len(var_names)} variables"}
    return {"ok": True, "value": None}
