"""C06 — Python-to-symbolic translation is sound: equal everywhere, or refused."""

from __future__ import annotations

import importlib
import math
import sys

from hypothesis import strategies as st

from vlib import gen_progs
from vlib.core import Outcome

ID = "C06"
LEVEL = "exploration"
DESIGN_REF = "DESIGN.md section 5, C06"
RULE = (
    "Grammar-generated Python functions (1-4 parameters; local assignments and reassignments, tuple assignment, "
    "if/elif/else with assignments or returns in any branch, fall-through after a conditional, conditional expressions, "
    "comparisons incl. == / != and chains, + - * / ** % //, calls into helper functions of another module with "
    "arguments passed in swapped order, module / class / math constants) plus a layer of constructs just outside the "
    "subset (augmented / annotated assignment, loops, and/or/not, walrus, keyword call, nested def, try, assert, del, "
    "starred call, subscript, lambda, math.* on symbols) x renamings (none, fresh names, permutation of the function's "
    "own parameter names, partial overlap) x 14 evaluation points on a dyadic grid incl. diagonal points (equality "
    "branches). Oracle: CPython executing the original function; the expression is evaluated by simultaneous "
    "substitution of Floats. Refusal (None or exception) always accepted. Non-trivial: translated (not refused) AND "
    ">=1 of {reassignment in branch, fall-through after conditional, == / !=, chained comparison, nested call with "
    "swapped own names, renaming onto own names, elif}; distinct by source text + renaming."
)
ASSUMPTIONS = [
    "points where the Python function raises or returns a non-real value are skipped (function undefined there)",
    "literals, grid points and everything feeding a comparison / % / // are dyadic, so branch decisions are exact in both worlds",
    "% and // are generated with power-of-two divisors only: with other divisors a float-based symbolic quotient (x*0.333..) legitimately differs from Python's exact floor at isolated points (observed: (x+0.5)//3.0 at x=2.5)",
    "tolerance 1e-9 relative",
]
TECHNIQUE = "grammar-based program generation + differential execution (CPython vs translated sympy expression) at branch-boundary points; refusals are accepted"
LEVEL_TEXT = "Generated function bodies in and just outside the supported subset, with renamings; every accepted translation is evaluated against CPython at points chosen to sit on branch boundaries."
LEVEL_NOTE = "Trusted: CPython as the reference semantics; sympy evaluation of the returned expression (xreplace + evalf)."

NONTRIVIAL_FEATS = {
    "reassignment_in_branch",
    "fallthrough_after_conditional",
    "eq_compare",
    "chained_compare",
    "call_with_swapped_own_names",
    "rename_onto_own_names",
    "elif",
}
PRIORITY = [
    "eq_compare",
    "reassignment_in_branch",
    "fallthrough_after_conditional",
    "assignment_in_branch",
    "elif",
    "call_with_swapped_own_names",
    "nested_call",
    "tuple_assignment",
    "chained_compare",
    "conditional_expression",
    "mod_or_floordiv",
    "reassignment",
    "named_constant",
    "power",
]


def budget(tier: str) -> dict:
    if tier == "quick":
        return {"examples": 700}
    return {"examples": 4000, "shards": 16, "fuzz_seconds": 60}


@st.composite
def _case(draw):
    prog = draw(gen_progs.program())
    pts = draw(gen_progs.points(len(prog["params"])))
    return {"prog": prog, "points": pts}


def strategy(tier: str):
    return _case()


_counter = [0]


def prepare(ctx) -> None:
    mods = ctx.work / "mods"
    mods.mkdir(parents=True, exist_ok=True)
    (mods / "vhelpers.py").write_text(gen_progs.HELPERS_SRC)
    sys.path.insert(0, str(mods))
    importlib.invalidate_caches()
    ctx.extra["mods_dir"] = str(mods)


def load_fn(ctx, src: str, name: str):
    from pathlib import Path

    mods = Path(ctx.extra["mods_dir"])
    _counter[0] += 1
    modname = f"vprog_{_counter[0]}_{abs(hash(src)) % 10**8}"
    path = mods / f"{modname}.py"
    path.write_text(src)
    importlib.invalidate_caches()
    mod = importlib.import_module(modname)
    return mod, getattr(mod, name), path


def unload(mod, path) -> None:
    sys.modules.pop(mod.__name__, None)
    try:
        path.unlink()
    except OSError:
        pass
    pyc = path.parent / "__pycache__"
    if pyc.exists():
        for f in pyc.glob(path.stem + ".*"):
            try:
                f.unlink()
            except OSError:
                pass


def py_value(f, pt):
    try:
        v = f(*pt)
    except (ZeroDivisionError, ValueError, OverflowError, ArithmeticError):
        return None
    if isinstance(v, complex) or v is None:
        return None
    try:
        v = float(v)
    except (TypeError, ValueError):
        return None
    if math.isnan(v) or math.isinf(v):
        return None
    return v


def sym_value(expr, names: list[str], pt):
    import sympy

    sub = {sympy.Symbol(n): sympy.Float(v) for n, v in zip(names, pt)}
    try:
        r = expr.xreplace(sub)
        r = sympy.N(r)
        if r.free_symbols:
            return ("unresolved", str(r)[:80])
        if not r.is_real and r.is_real is not None:
            return ("nonreal", str(r)[:80])
        return float(r)
    except Exception as e:  # noqa: BLE001
        return ("error", type(e).__name__ + ":" + str(e)[:80])


def judge(f, expr, names, pts):
    """-> (n_compared, first mismatch or None)"""
    n = 0
    for pt in pts:
        pv = py_value(f, pt)
        if pv is None:
            continue
        sv = sym_value(expr, names, pt)
        n += 1
        if isinstance(sv, tuple):
            return n, {"point": pt, "python": pv, "symbolic": sv}
        if abs(sv - pv) > 1e-9 * (1 + abs(pv)):
            return n, {"point": pt, "python": pv, "symbolic": sv}
    return n, None


def examine(case: dict, ctx) -> Outcome:
    import sympy
    from mxlpy.meta.source_tools import fn_to_sympy

    out = Outcome()
    prog = case["prog"]
    feats = set(prog["features"])
    beyond = sorted(f for f in feats if f.startswith("beyond:"))
    mod, f, path = load_fn(ctx, prog["src"], prog["fn"])
    try:
        names = prog["model_args"] or prog["params"]
        margs = None if prog["model_args"] is None else [sympy.Symbol(n) for n in prog["model_args"]]
        try:
            expr = fn_to_sympy(f, origin="c06", model_args=margs)
            exc = None
        except Exception as e:  # noqa: BLE001
            expr = None
            exc = e
        out.classes = [f"rename:{prog['rename']}"] + sorted(feats)
        if expr is None:
            out.classes.append("refused" + (":beyond" if beyond else ":subset"))
            if exc is not None and not isinstance(exc, (NotImplementedError, TypeError, ValueError, KeyError, AttributeError, SyntaxError, NameError, IndexError, ModuleNotFoundError, ImportError)):
                out.classes.append(f"refused-with-{type(exc).__name__}")
            return out
        out.classes.append("translated" + (":beyond" if beyond else ":subset"))
        n, bad = judge(f, expr, names, case["points"])
        if n == 0:
            out.skipped = "function-undefined-at-all-points"
            return out
        if feats & NONTRIVIAL_FEATS and not beyond:
            out.nontrivial = [prog["src"], prog["model_args"]]
            out.sample = {"src": prog["src"], "model_args": prog["model_args"], "expr": str(expr)[:300]}
        if bad is not None:
            # attribute: is it the renaming alone?
            root = None
            if prog["model_args"] is not None:
                try:
                    e0 = fn_to_sympy(f, origin="c06", model_args=None)
                except Exception:  # noqa: BLE001
                    e0 = None
                if e0 is not None and judge(f, e0, prog["params"], case["points"])[1] is None:
                    root = "argument-renaming"
            if root is None:
                if beyond:
                    root = beyond[0]
                else:
                    root = next((p for p in PRIORITY if p in feats), "arithmetic")
            out.bad(f"wrong-expression:{root}", src=prog["src"], model_args=prog["model_args"], expr=str(expr)[:300], **bad)
        return out
    finally:
        unload(mod, path)


def floors(ctx) -> list[str]:
    c = []
    tr = ctx.classes.get("translated:subset", 0)
    rf = ctx.classes.get("refused:subset", 0)
    if tr + rf > 0 and tr / (tr + rf) < 0.5:
        c.append(f"acceptance rate inside the subset {tr}/{tr + rf} < 50%")
    for k in ["reassignment_in_branch", "fallthrough_after_conditional", "eq_compare", "call_with_swapped_own_names", "rename_onto_own_names", "elif", "tuple_assignment"]:
        if ctx.classes.get(k, 0) < 10:
            c.append(f"class {k} only {ctx.classes.get(k, 0)}")
    return c
