"""C18 — control coefficients equal analytic sensitivities; model left untouched."""

from __future__ import annotations

import numpy as np
from hypothesis import strategies as st

from vlib import mcamodels as mm
from vlib.core import Outcome

ID = "C18"
LEVEL = "exploration"
DESIGN_REF = "DESIGN.md section 5, C18"
CASE_TIMEOUT = 180.0
RULE = (
    "Generated power-law / mass-action networks (1-3 variables, influx, conversions and degradations with rate "
    "k*x^n, orders in {0.5, 1, 2, 3} - and negative orders for the elasticities - given as parameters) with positive states and parameters x to_scan subsets x "
    "variables supplied or not x normalized in {True, False} x displacement in {1e-2, 1e-3, 1e-4} x parallel in {False, "
    "True}. Oracle: analytic partial derivatives (kinetic orders; n*v/x unscaled; n*ln x for an order parameter) and "
    "-(N dv/dx)^-1 N dv/dp at the analytically polished steady state; snapshots of parameter values and initial values "
    "before/after every routine must be identical; sequential and parallel response coefficients must agree. A third "
    "class drives the Monte-Carlo wrappers (mc.variable_elasticities / parameter_elasticities / response_coefficients) "
    "with 2-3 labelled parameter rows: each block must equal the analytic values for its row (elasticities) or the plain "
    "routine on a model carrying that row (response coefficients), blocks keyed by the rows' labels, caller's model untouched. "
    "Non-trivial: >=2 reactions, at least one kinetic order != 1, and (for response coefficients) a parameter that moves "
    ">=2 steady-state concentrations; distinct by (structure, orders, flags)."
)
ASSUMPTIONS = [
    "central differences with relative step d: tolerance 60*d^2 + 2e-7/d relative to (1 + |coefficient|) for elasticities; for response coefficients the integrator's error floor in the two steady states (LSODA rtol 1e-6 of the largest concentration) is amplified by 1/(d*p): tolerance 60*d^2*(1+|c|) + 5e-6*max|x*|/(d*p) unscaled, 5e-6/d normalized (found by `vp check`: an exact 0 coefficient came out as -0.05 at d=1e-4)",
    "only fast-relaxing networks (100 * lambda_min >= 5) are judged for response coefficients, others are counted as skipped",
    "model-untouched is exact equality of get_parameter_values() and get_initial_conditions() snapshots",
]
TECHNIQUE = "property-based testing against analytic sensitivities (kinetic orders, implicit-function-theorem response coefficients) + before/after state snapshots + sequential-vs-parallel differential"
LEVEL_TEXT = "Generated power-law networks with analytic elasticities and response coefficients; every routine is also checked to leave parameter and initial values untouched and to agree between sequential and parallel execution."
LEVEL_NOTE = "Trusted: numpy linear algebra and the analytic formulas in vlib/mcamodels.py; pebble pools."


def budget(tier: str) -> dict:
    if tier == "quick":
        return {"examples": 240}
    return {"examples": 1200, "shards": 8, "fuzz_seconds": 45}


_order = st.sampled_from([0.5, 1.0, 1.0, 2.0, 3.0])
_k = st.sampled_from([0.5, 1.0, 1.5, 2.0, 3.0])


@st.composite
def _net(draw):
    n = draw(st.integers(1, 3))
    rx = [{"name": "vin0", "sub": None, "prod": 0, "k": draw(_k), "order": 0.0}]
    for i in range(n):
        # every variable is degraded or converted onwards (so a steady state exists)
        if i + 1 < n and draw(st.booleans()):
            rx.append({"name": f"vc{i}", "sub": i, "prod": i + 1, "k": draw(_k), "order": draw(_order)})
            if draw(st.booleans()):
                rx.append({"name": f"vd{i}", "sub": i, "prod": None, "k": draw(_k), "order": draw(_order)})
        else:
            rx.append({"name": f"vd{i}", "sub": i, "prod": None, "k": draw(_k), "order": draw(_order)})
            if i + 1 < n:
                rx.append({"name": f"vin{i + 1}", "sub": None, "prod": i + 1, "k": draw(_k), "order": 0.0})
    if n >= 2 and draw(st.booleans()):
        rx.append({"name": "vback", "sub": n - 1, "prod": 0, "k": draw(st.sampled_from([0.25, 0.5])), "order": draw(_order)})
    return {"n": n, "x0": [draw(st.sampled_from([0.5, 1.0, 2.0, 3.0])) for _ in range(n)], "reactions": rx}


@st.composite
def _case(draw, kinds=("elasticities", "response")):
    kind = draw(st.sampled_from(list(kinds)))
    net = draw(_net())
    if kind == "elasticities" and draw(st.integers(0, 2)) == 0:
        # inhibitory kinetic orders: parameters with a negative value (no steady state is needed for elasticities)
        for r in net["reactions"]:
            if r["sub"] is not None and draw(st.booleans()):
                r["order"] = draw(st.sampled_from([-0.5, -1.0, -2.0]))
    pn = mm.param_names(net)
    case = {
        "kind": kind,
        "net": net,
        "normalized": draw(st.booleans()),
        "displacement": draw(st.sampled_from([1e-2, 1e-3, 1e-4])),
        "variables": draw(st.one_of(st.none(), st.lists(st.sampled_from([0.4, 0.9, 1.7, 2.6]), min_size=3, max_size=3))),
        "to_scan": draw(st.one_of(st.none(), st.lists(st.sampled_from(pn), min_size=1, max_size=3, unique=True))),
    }
    if kind == "response":
        case["parallel"] = draw(st.sampled_from([False, False, True]))
    return case


@st.composite
def _mc_case(draw, wrapper=None):
    net = draw(_net())
    pn = mm.param_names(net)
    cols = draw(st.lists(st.sampled_from(pn), min_size=1, max_size=3, unique=True))
    labels = draw(st.sampled_from([[0, 1], [5, 2], [7, 3, 1]]))
    rows = [{c: (draw(_k) if c.startswith("k_") else draw(_order)) for c in cols} for _ in labels]
    wrapper = wrapper or draw(st.sampled_from(["variable_elasticities", "parameter_elasticities", "response_coefficients"]))
    return {
        "kind": "mc",
        "wrapper": wrapper,
        "net": net,
        "mc_labels": labels,
        "mc_rows": rows,
        "normalized": draw(st.booleans()),
        "displacement": draw(st.sampled_from([1e-2, 1e-3, 1e-4])),
        "variables": draw(st.one_of(st.none(), st.lists(st.sampled_from([0.4, 0.9, 1.7, 2.6]), min_size=3, max_size=3))),
        "to_scan": draw(st.lists(st.sampled_from(pn), min_size=1, max_size=2, unique=True)),
    }


def strategy(tier: str):
    return _case()


def strategies(tier: str):
    f = 1 if tier == "quick" else 5
    return [("elasticities", _case(kinds=("elasticities",)), 200 * f), ("response", _case(kinds=("response",)), 60 * f), *[(f"mc.{w}", _mc_case(w), 14 * f) for w in ("variable_elasticities", "parameter_elasticities", "response_coefficients")]]


def _snap(m):
    return dict(m.get_parameter_values()), dict(m.get_initial_conditions())


def _row_net(net: dict, row: dict) -> dict:
    rx = []
    for r in net["reactions"]:
        r = dict(r)
        if f"k_{r['name']}" in row:
            r["k"] = row[f"k_{r['name']}"]
        if f"n_{r['name']}" in row:
            r["order"] = row[f"n_{r['name']}"]
        rx.append(r)
    return {**net, "reactions": rx}


def _examine_mc(case: dict, ctx) -> Outcome:
    """The Monte-Carlo wrappers: one block of coefficients per parameter row, each equal to the analytic values for that row's
    parameters and to the plain routine run on a model carrying that row; the caller's model untouched."""
    import pandas as pd
    from mxlpy import mc, mca

    out = Outcome()
    net = case["net"]
    d, norm, w = case["displacement"], case["normalized"], case["wrapper"]
    vn = [f"x{i}" for i in range(net["n"])]
    rn = [r["name"] for r in net["reactions"]]
    labels, rows = case["mc_labels"], case["mc_rows"]
    mcs = pd.DataFrame(rows, index=labels)
    x = dict(zip(vn, case["variables"][: net["n"]])) if case["variables"] else None
    if w == "parameter_elasticities" and x is None:
        x = dict(zip(vn, net["x0"]))  # this wrapper requires the state
    scan = list(case["to_scan"])
    out.classes = ["kind:mc", f"mc:{w}", "normalized" if norm else "unscaled", "variables_supplied" if case["variables"] else "default_state"]
    m = mm.build(net)
    before = _snap(m)
    kw = {"mc_to_scan": mcs, "normalized": norm, "displacement": d, "max_workers": 2}
    try:
        if w == "variable_elasticities":
            res = mc.variable_elasticities(m, variables=dict(x) if x else None, **kw)
        elif w == "parameter_elasticities":
            res = mc.parameter_elasticities(m, to_scan=scan, variables=dict(x), **kw)
        else:
            res = mc.response_coefficients(m, to_scan=scan, variables=dict(x) if x else None, disable_tqdm=True, **kw)
    except Exception as e:  # noqa: BLE001
        out.bad(f"mc.{w}:raises:{type(e).__name__}", error=repr(e)[:200])
        return out
    after = _snap(m)
    if after != before:
        what = "initial-values" if after[1] != before[1] else "parameter-values"
        out.bad(f"mc.{w}:model-modified:{what}:{'variables-supplied' if case['variables'] else 'default-state'}", before=before[1] if what == "initial-values" else before[0], after=after[1] if what == "initial-values" else after[0])
    frames = {"variables": res.variables, "fluxes": res.fluxes} if w == "response_coefficients" else {"table": res}
    for name, df in frames.items():
        got_labels = list(dict.fromkeys(df.index.get_level_values(0)))
        if got_labels != labels:
            out.bad(f"mc.{w}:row-labels", got=got_labels, want=labels, table=name)
            return out
    compared = 0
    for lab, row in zip(labels, rows):
        rnet = _row_net(net, row)
        m_row = mm.build(rnet)
        pvals = dict(m_row.get_parameter_values())
        if w in ("variable_elasticities", "parameter_elasticities"):
            xv = np.array([x[v] for v in vn]) if x else np.array(net["x0"], dtype=float)
            v = mm.rates(rnet, xv)
            tol = lambda ref: (60 * d * d + 2e-7 / d) * (1.0 + abs(ref))  # noqa: E731
            blk = res.loc[lab]
            if w == "variable_elasticities":
                J = mm.dv_dx(rnet, xv)
                for j, r in enumerate(rn):
                    for i, var in enumerate(vn):
                        want = J[j, i] * (xv[i] / v[j] if norm else 1.0)
                        got = float(blk.loc[r, var])
                        if not abs(got - want) <= tol(want):
                            out.bad(f"mc.variable_elasticities:value:{'normalized' if norm else 'unscaled'}", row=lab, reaction=r, variable=var, got=got, want=want, row_values=row)
                            return out
            else:
                Jp, names = mm.dv_dp(rnet, xv)
                if sorted(blk.columns) != sorted(scan):
                    out.bad("mc.parameter_elasticities:columns", got=list(blk.columns), want=scan)
                    return out
                for j, r in enumerate(rn):
                    for p in scan:
                        want = Jp[j, names.index(p)] * (pvals[p] / v[j] if norm else 1.0)
                        got = float(blk.loc[r, p])
                        if not abs(got - want) <= tol(want):
                            out.bad(f"mc.parameter_elasticities:value:{'normalized' if norm else 'unscaled'}", row=lab, reaction=r, parameter=p, got=got, want=want, row_values=row)
                            return out
            compared += 1
            continue
        # response coefficients: differential against the plain routine on a model carrying the row (C18's other class
        # compares that routine with the analytic sensitivities)
        try:
            ref = mca.response_coefficients(m_row, to_scan=scan, variables=dict(x) if x else None, normalized=norm, displacement=d, parallel=False, disable_tqdm=True)
        except Exception:  # noqa: BLE001
            continue
        for name, a, b in [("concentration", res.variables.loc[lab], ref.variables), ("flux", res.fluxes.loc[lab], ref.fluxes)]:
            # (mc tables have the scanned parameters in their rows)
            a2 = a if list(a.index) == list(b.index) else a.T
            try:
                av, bv = a2.loc[b.index, b.columns].to_numpy(float), b.to_numpy(float)
            except KeyError:
                out.bad(f"mc.response_coefficients:{name}:labels", got=[list(a.index), list(a.columns)], want=[list(b.index), list(b.columns)])
                return out
            if not np.allclose(av, bv, rtol=1e-6, atol=1e-9, equal_nan=True):
                out.bad(f"mc.response_coefficients:{name}:differs-from-plain-routine-on-row-model", row=lab, got=av.tolist(), want=bv.tolist(), row_values=row)
                return out
        compared += 1
    if compared >= 2 and len(rn) >= 2:
        out.nontrivial = ["mc", w, net["n"], [(r["name"], r["order"]) for r in net["reactions"]], labels, sorted(rows[0]), norm, d, case["variables"] is not None]
        out.sample = {"wrapper": w, "rows": rows, "labels": labels}
    return out


def examine(case: dict, ctx) -> Outcome:
    if case["kind"] == "mc":
        return _examine_mc(case, ctx)
    from mxlpy import mca

    out = Outcome()
    net = case["net"]
    d = case["displacement"]
    norm = case["normalized"]
    vn = [f"x{i}" for i in range(net["n"])]
    rn = [r["name"] for r in net["reactions"]]
    pn = mm.param_names(net)
    orders_not_1 = any(r["sub"] is not None and r["order"] != 1.0 for r in net["reactions"])
    m = mm.build(net)
    key = [case["kind"], net["n"], [(r["name"], r["order"]) for r in net["reactions"]], norm, d, case["variables"] is not None, case["to_scan"], case.get("parallel")]
    out.classes = [f"kind:{case['kind']}", "normalized" if norm else "unscaled", f"d={d:g}", "variables_supplied" if case["variables"] else "default_state"]
    if any(r["sub"] is not None and r["order"] < 0 for r in net["reactions"]):
        out.classes.append("negative_parameter_value")

    if case["kind"] == "elasticities":
        x = dict(zip(vn, (case["variables"] or net["x0"])[: net["n"]]))
        xv = np.array([x[v] for v in vn])
        v = mm.rates(net, xv)
        tol = lambda ref: (60 * d * d + 2e-7 / d) * (1.0 + abs(ref))  # noqa: E731
        before = _snap(m)
        try:
            ev = mca.variable_elasticities(m, variables=dict(x) if case["variables"] else None, normalized=norm, displacement=d)
        except Exception as e:  # noqa: BLE001
            out.bad(f"variable_elasticities:raises:{type(e).__name__}", error=repr(e)[:200])
            return out
        if _snap(m) != before:
            out.bad("variable_elasticities:model-modified", before=before, after=_snap(m))
        if not case["variables"]:
            xv = np.array(net["x0"], dtype=float)
            v = mm.rates(net, xv)
        J = mm.dv_dx(net, xv)
        for j, r in enumerate(rn):
            for i, var in enumerate(vn):
                want = J[j, i] * (xv[i] / v[j] if norm else 1.0)
                got = float(ev.loc[r, var])
                if not abs(got - want) <= tol(want):
                    out.bad(f"variable_elasticities:value:{'normalized' if norm else 'unscaled'}", reaction=r, variable=var, got=got, want=want, displacement=d)
                    return out
        scan = case["to_scan"] or pn
        before = _snap(m)
        try:
            ep = mca.parameter_elasticities(m, to_scan=list(scan) if case["to_scan"] else None, variables=dict(x) if case["variables"] else None, normalized=norm, displacement=d)
        except Exception as e:  # noqa: BLE001
            out.bad(f"parameter_elasticities:raises:{type(e).__name__}", error=repr(e)[:200])
            return out
        if _snap(m) != before:
            out.bad("parameter_elasticities:model-modified", before=before[0], after=_snap(m)[0])
        Jp, names = mm.dv_dp(net, xv)
        pvals = dict(m.get_parameter_values())
        if sorted(ep.columns) != sorted(scan):
            out.bad("parameter_elasticities:columns", got=list(ep.columns), want=list(scan))
            return out
        for j, r in enumerate(rn):
            for p in scan:
                want = Jp[j, names.index(p)] * (pvals[p] / v[j] if norm else 1.0)
                got = float(ep.loc[r, p])
                if not abs(got - want) <= tol(want):
                    out.bad(f"parameter_elasticities:value:{'normalized' if norm else 'unscaled'}:{'order' if p.startswith('n_') else 'rate-constant'}-parameter", reaction=r, parameter=p, got=got, want=want, displacement=d)
                    return out
        if len(rn) >= 2 and orders_not_1:
            out.nontrivial = key
        return out

    # response coefficients
    y0 = None
    if case["variables"]:
        y0 = dict(zip(vn, case["variables"][: net["n"]]))
        net = {**net, "x0": [y0[v] for v in vn]}
    xs = mm.steady_state(net)
    if xs is None:
        out.skipped = "no-analytic-steady-state"
        return out
    N = mm.stoich(net)
    Jx = N @ mm.dv_dx(net, xs)
    lam = -float(np.max(np.real(np.linalg.eigvals(Jx))))
    if not lam * 100 >= 5:
        out.skipped = "slow-relaxation"
        return out
    Jp, names = mm.dv_dp(net, xs)
    dxdp = -np.linalg.solve(Jx, N @ Jp)  # (nvars x nparams)
    dvdp = mm.dv_dx(net, xs) @ dxdp + Jp
    vss = mm.rates(net, xs)
    scan = case["to_scan"] or pn
    pvals = {r_: v_ for r_, v_ in zip(names, [None] * len(names))}
    m = mm.build(case["net"])
    pvals = dict(m.get_parameter_values())
    before = _snap(m)
    par = bool(case.get("parallel"))
    out.classes.append("parallel" if par else "sequential")
    try:
        rc = mca.response_coefficients(m, to_scan=list(scan) if case["to_scan"] else None, variables=dict(y0) if y0 else None, normalized=norm, displacement=d, parallel=par, max_workers=2, disable_tqdm=True)
    except Exception as e:  # noqa: BLE001
        out.bad(f"response_coefficients:raises:{type(e).__name__}", error=repr(e)[:200])
        return out
    after = _snap(m)
    if after != before:
        what = "initial-values" if after[1] != before[1] else "parameter-values"
        out.bad(f"response_coefficients:model-modified:{what}:{'parallel' if par else 'sequential'}:{'variables-supplied' if y0 else 'default-state'}", before=before[1], after=after[1])
    # finite-difference truncation + the integrator's error floor in the two steady states (LSODA rtol 1e-6 of
    # the largest concentration), amplified by 1/(d*p); the normalisation p/x turns that into 1e-6/d
    xmax = float(np.max(np.abs(xs)))

    def tol(ref, p=None, scale=None):
        noise = 5e-6 / d if norm else 5e-6 * (scale if scale is not None else xmax) / (d * abs(pvals[p]))
        return 60 * d * d * (1.0 + abs(ref)) + noise * (1.0 if not norm else 1.0 + abs(ref))

    moves2 = False
    for p in scan:
        jp = names.index(p)
        if np.sum(np.abs(dxdp[:, jp]) > 1e-9) >= 2:
            moves2 = True
        for i, var in enumerate(vn):
            want = dxdp[i, jp] * (pvals[p] / xs[i] if norm else 1.0)
            got = float(rc.variables.loc[var, p])
            if not abs(got - want) <= tol(want, p, xmax):
                out.bad(f"response_coefficients:concentration:{'normalized' if norm else 'unscaled'}", variable=var, parameter=p, got=got, want=want, displacement=d)
                return out
        for j, r in enumerate(rn):
            want = dvdp[j, jp] * (pvals[p] / vss[j] if norm else 1.0)
            got = float(rc.fluxes.loc[r, p])
            if not abs(got - want) <= tol(want, p, float(np.max(np.abs(vss))) + float(np.linalg.norm(mm.dv_dx(net, xs), 2)) * xmax):
                out.bad(f"response_coefficients:flux:{'normalized' if norm else 'unscaled'}", reaction=r, parameter=p, got=got, want=want, displacement=d)
                return out
    # sequential == parallel
    if par:
        m2 = mm.build(case["net"])
        rc2 = mca.response_coefficients(m2, to_scan=list(scan) if case["to_scan"] else None, variables=dict(y0) if y0 else None, normalized=norm, displacement=d, parallel=False, disable_tqdm=True)
        a, b = rc.variables.loc[vn, list(scan)].to_numpy(float), rc2.variables.loc[vn, list(scan)].to_numpy(float)
        if not np.allclose(a, b, rtol=1e-9, atol=1e-12):
            out.bad("response_coefficients:sequential-differs-from-parallel", parallel=a.tolist(), sequential=b.tolist())
    if len(rn) >= 2 and orders_not_1 and moves2:
        out.nontrivial = key
    return out


def floors(ctx) -> list[str]:
    c = []
    for k in ["kind:elasticities", "kind:response", "kind:mc", "mc:variable_elasticities", "mc:parameter_elasticities", "mc:response_coefficients", "normalized", "unscaled", "parallel", "variables_supplied", "negative_parameter_value"]:
        if ctx.classes.get(k, 0) < 3:
            c.append(f"class {k} only {ctx.classes.get(k, 0)}")
    return c
