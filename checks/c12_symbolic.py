"""C12 — symbolic equations and Jacobian agree with the numeric model."""

from __future__ import annotations

import copy
import warnings
from functools import partial

import numpy as np
from hypothesis import strategies as st

from vlib import gen_models as gm
from vlib import gen_srcmodels as gs
from vlib.core import Outcome
from vlib.spec import build, close, decls_of, var_names

ID = "C12"
LEVEL = "exploration"
DESIGN_REF = "DESIGN.md section 5, C12"
CASE_TIMEOUT = 15.0
RULE = (
    "Generated surrogate-free models over (a) every function of the shipped mxlpy.fns rate-law library and (b) the "
    "source-backed check library (conditional rate laws, nested calls): derived chains declared in shuffled order, "
    "derived quantities on fluxes, variables no reaction touches, parameter- and state-dependent computed coefficients, "
    "initial-assignment parameters, time dependence. to_symbolic_model(m).eqs and .jacobian() are evaluated at a random "
    "positive state and at a parameter setting DIFFERENT from the one at conversion time (symbols substituted on the "
    "symbolic side, update_parameters on the numeric side) and compared with Model.__call__ resp. a central-difference "
    "(Richardson) Jacobian of it; for a third of the cases Simulator(use_jacobian=True) with Radau, BDF and LSODA is "
    "compared with the Jacobian-free trajectory. A class with an untranslatable function must raise (or fall back in the "
    "simulator). Non-trivial: derived declared out of dependency order, or >=2 variables with a nonlinear law, or a "
    "Jacobian-using method actually invoked (counted); distinct by structural hash."
)
ASSUMPTIONS = [
    "evaluation times are > 0 (time as the base of a power is not differentiable at 0); numeric Jacobian by Richardson-extrapolated central differences; tolerance 1e-5*(1+|J|) (1e-4 next to a conditional boundary is skipped by moving the point)",
    "trajectories with and without Jacobian are compared for the same method at 1e-4 relative (integrator rtol=atol=1e-8; generated nonlinear systems amplify the difference between the two Newton iterations)",
    "a logged fallback to the Jacobian-free integration is accepted, a crash inside the integrator is not; scipy's 'array must not contain infs or NaNs' at a singular point of a degenerate generated model and integration failures reported as failure values are counted, not judged",
]
TECHNIQUE = "property-based differential testing: symbolic equations / Jacobian evaluated at generated states and changed parameter values vs the numeric model and its finite-difference Jacobian; Jacobian-on vs Jacobian-off simulation"
LEVEL_TEXT = "Generated translatable models incl. the whole shipped rate-law library; symbolic right-hand side and Jacobian are evaluated numerically and compared with the model and a finite-difference Jacobian; Jacobian-enabled simulation compared with plain simulation for three methods."
LEVEL_NOTE = "Trusted: Model.__call__ (C01), sympy evaluation, scipy integrators."

FNS_ARITY = {
    "add": 2, "constant": 1, "diffusion_1s_1p": 3, "div": 2, "mass_action_1s": 2, "mass_action_1s_1p": 4, "mass_action_2s": 3,
    "mass_action_2s_1p": 5, "michaelis_menten_1s": 3, "michaelis_menten_2s": 5, "michaelis_menten_3s": 7, "minus": 2,
    "moiety_1s": 2, "moiety_2s": 3, "mul": 2, "neg": 1, "neg_div": 2, "one_div": 1, "proportional": 2, "twice": 1,
}  # fmt: skip


def budget(tier: str) -> dict:
    if tier == "quick":
        return {"examples": 300}
    return {"examples": 700, "shards": 16}


@st.composite
def _fns_spec(draw) -> dict:
    """A model over mxlpy.fns only: derived chain (shuffled), reactions, all positive."""
    n_par = draw(st.integers(2, 4))
    n_var = draw(st.integers(1, 3))
    decls = [["parameter", f"p{i}", {"value": draw(gs.pval)}] for i in range(n_par)]
    decls += [["variable", f"x{i}", {"value": draw(gs.xval)}] for i in range(n_var)]
    avail = [d[1] for d in decls]
    names = sorted(FNS_ARITY)
    rxns = []
    for i in range(draw(st.integers(1, 4))):
        fn = draw(st.sampled_from(names))
        args = [draw(st.sampled_from(avail)) for _ in range(FNS_ARITY[fn])]
        decls.append(["derived", f"d{i}", {"fn": {"kind": "lib", "module": "mxlpy.fns", "name": fn, "n": FNS_ARITY[fn]}, "args": args}])
        avail.append(f"d{i}")
    for i in range(draw(st.integers(1, 3))):
        fn = draw(st.sampled_from(names))
        args = [draw(st.sampled_from(avail)) for _ in range(FNS_ARITY[fn])]
        tg = draw(st.lists(st.sampled_from([f"x{j}" for j in range(n_var)]), min_size=1, max_size=min(2, n_var), unique=True))
        d = ["reaction", f"r{i}", {"fn": {"kind": "lib", "module": "mxlpy.fns", "name": fn, "n": FNS_ARITY[fn]}, "args": args, "stoich": {v: draw(st.sampled_from([-1, 1, 2, -0.5])) for v in tg}}]
        decls.append(d)
        rxns.append(d)
    decls = draw(st.permutations(decls))
    return {"decls": [list(d) for d in decls]}


@st.composite
def _case(draw):
    lib = draw(st.sampled_from(["fns", "rates", "rates"]))
    spec = draw(_fns_spec()) if lib == "fns" else draw(gs.src_spec(max_nodes=6))
    spec = copy.deepcopy(spec)
    unt = lib == "rates" and draw(st.integers(0, 11)) == 0
    if unt:
        for d in spec["decls"]:
            if d[0] == "reaction":
                d[2]["fn"] = gs.lib(draw(st.sampled_from(["untranslatable_loop", "untranslatable_exp", "untranslatable_aug"])))
                d[2]["args"] = [var_names(spec)[0]]
                break
    state = {v: draw(st.sampled_from([0.3, 0.7, 1.1, 1.6, 2.3, 3.1])) for v in var_names(spec)}
    plain = [n for n, p in decls_of(spec, "parameter") if "ia" not in p]
    newp = {n: draw(st.sampled_from([0.35, 0.6, 0.9, 1.3, 1.7, 2.2, 2.9])) for n in plain if draw(st.booleans())}
    return {"lib": lib, "spec": spec, "state": state, "time": draw(st.sampled_from([0.4, 1.3, 2.0])), "new_params": newp, "untranslatable": unt, "simulate": draw(st.integers(0, 2)) == 0}


def strategy(tier: str):
    return _case()


def enumerate_cases(tier: str, shard: int, nshards: int, ctx):
    """Stiff networks (rate constants spread over >= 4 decades) so that LSODA, too, asks for the Jacobian."""
    combos = [(1000.0, 0.05, 2.0), (5000.0, 0.01, 0.5), (200.0, 0.02, 1.0), (20000.0, 0.1, 3.0)]
    if tier == "quick":
        combos = combos[:2]
    for i, (kf, ks, kb) in enumerate(combos):
        if i % nshards != shard:
            continue
        spec = {
            "decls": [
                ["parameter", "p0", {"value": kf}],
                ["parameter", "p1", {"value": ks}],
                ["parameter", "p2", {"value": kb}],
                ["variable", "x0", {"value": 1.0}],
                ["variable", "x1", {"value": 0.5}],
                ["variable", "x2", {"value": 0.25}],
                ["reaction", "r0", {"fn": gs.lib("mass_action_1"), "args": ["x0", "p0"], "stoich": {"x0": -1, "x1": 1}}],
                ["reaction", "r1", {"fn": gs.lib("mass_action_1"), "args": ["x1", "p1"], "stoich": {"x1": -1, "x0": 1}}],
                ["reaction", "r2", {"fn": gs.lib("mass_action_2"), "args": ["x1", "x2", "p2"], "stoich": {"x1": -1, "x2": -1, "x0": 2}}],
            ]
        }
        yield {"lib": "rates", "spec": spec, "state": {"x0": 0.7, "x1": 1.1, "x2": 0.3}, "time": 0.0, "new_params": {"p1": 0.35}, "untranslatable": False, "simulate": True, "stiff": True}


def _num_jac(m, t, y):
    y = np.array(y, dtype=float)
    n = len(y)

    def f(yy):
        return np.array(m(t, list(yy)), dtype=float)

    def cd(h):
        J = np.zeros((n, n))
        for j in range(n):
            e = np.zeros(n)
            e[j] = h * max(1.0, abs(y[j]))
            J[:, j] = (f(y + e) - f(y - e)) / (2 * e[j])
        return J

    h = 1e-3
    a, b = cd(h), cd(h / 2)
    # Richardson extrapolation and, entry by entry, how far the two step sizes disagree: near a pole of a rate
    # law the higher derivatives are huge and the estimate is only as good as that
    return (4 * b - a) / 3, np.abs(b - a)


def examine(case: dict, ctx) -> Outcome:
    import sympy
    from mxlpy import Simulator
    from mxlpy.integrators.int_scipy import Scipy
    from mxlpy.symbolic import to_symbolic_model

    out = Outcome()
    spec = case["spec"]
    vn = var_names(spec)
    feats = gm.features(spec) | gs.extra_features(spec)
    root = next((p for p in ["untouched_variable", "initial_assignment_parameter", "derived_on_flux", "derived_declared_out_of_order", "state_dependent_coefficient", "computed_coefficient", "named_coefficient", "time_dependence", "conditional_rate_law"] if p in feats), "plain")
    out.classes = [f"lib:{case['lib']}"] + sorted(f"feat:{f}" for f in feats if f in ("untouched_variable", "initial_assignment_parameter", "derived_on_flux", "derived_declared_out_of_order", "state_dependent_coefficient", "computed_coefficient", "time_dependence", "conditional_rate_law"))
    try:
        m = build(spec)
        y = [case["state"][v] for v in vn]
        base = m(case["time"], y)
        if any(isinstance(v, complex) or v != v or abs(v) > 1e12 for v in base):
            out.skipped = "reference-undefined"
            return out
    except (ZeroDivisionError, OverflowError, ValueError, TypeError):
        out.skipped = "reference-undefined"
        return out

    try:
        sm = to_symbolic_model(m)
        exc = None
    except Exception as e:  # noqa: BLE001
        sm = None
        exc = e
    if case["untranslatable"]:
        out.classes.append("untranslatable")
        if sm is not None:
            out.bad("symbolic-model-for-untranslatable-function")
        # the simulator must fall back (warning), not crash (only judged where the model itself is well-defined)
        try:
            ic = m.get_initial_conditions()
            r0 = np.array(m(0.0, list(ic.values())), dtype=float)
            if not np.all(np.isfinite(r0)) or np.abs(r0).max() > 50:
                return out
        except Exception:  # noqa: BLE001
            return out
        try:
            s = Simulator(m, use_jacobian=True, integrator=partial(Scipy, method="Radau"))
            s.simulate(0.1, steps=2)
        except Exception as e:  # noqa: BLE001
            try:
                Simulator(build(spec), integrator=partial(Scipy, method="Radau")).simulate(0.1, steps=2)
                plain_ok = True
            except Exception:  # noqa: BLE001
                plain_ok = False
            if plain_ok:
                out.bad(f"simulator-crashes-instead-of-falling-back:{type(e).__name__}", error=repr(e)[:200])
        return out
    if sm is None:
        out.bad(f"conversion-raises:{type(exc).__name__}:{root}:lib={case['lib']}", error=repr(exc)[:200], spec=spec)
        return out

    nonlinear = len(vn) >= 2 and any(p["fn"]["name"] not in ("constant", "mass_action_1", "mass_action_1s", "twice", "neg", "add", "add2", "minus", "sub2", "scaled", "half_of", "one") for _, p in decls_of(spec, "reaction"))
    if "derived_declared_out_of_order" in feats or nonlinear:
        out.nontrivial = gm.structure_key(spec)

    # numeric side at the new parameter setting
    m.update_parameters(case["new_params"])
    try:
        want = [float(v) for v in m(case["time"], y)]
    except (ZeroDivisionError, OverflowError, ValueError, TypeError):
        out.skipped = "reference-undefined-at-new-parameters"
        return out
    if any(v != v or abs(v) > 1e12 for v in want):
        out.skipped = "reference-undefined-at-new-parameters"
        return out
    try:
        allp = m.get_args(dict(case["state"]), case["time"])
    except (TypeError, ValueError, ZeroDivisionError, OverflowError):
        out.skipped = "reference-undefined-at-new-parameters"
        return out
    sub = {sympy.Symbol("time"): sympy.Float(case["time"])}
    for v, val in zip(vn, y):
        sub[sm.variables[v] if v in sm.variables else sympy.Symbol(v)] = sympy.Float(val)
    for pname in [n for n, _ in decls_of(spec, "parameter")]:
        sub[sympy.Symbol(pname)] = sympy.Float(float(allp[pname]))
    if list(sm.variables) != vn:
        out.bad(f"variable-order:{root}", got=list(sm.variables), want=vn)
        return out
    if len(sm.eqs) != len(vn):
        out.bad(f"equation-count:{root}", got=len(sm.eqs), want=len(vn))
        return out
    pchanged = "params_changed" if case["new_params"] else "params_same"
    out.classes.append(pchanged)
    for v, eq, w in zip(vn, sm.eqs, want):
        try:
            g = sympy.N(sympy.sympify(eq).xreplace(sub))
            if g.free_symbols:
                out.bad(f"equation-has-unbound-symbols:{root}", var=v, symbols=sorted(str(x) for x in g.free_symbols))
                return out
            g = float(g)
        except Exception as e:  # noqa: BLE001
            out.bad(f"equation-not-evaluable:{type(e).__name__}:{root}", var=v, error=repr(e)[:200])
            return out
        if not close(g, w, abs(w), rtol=1e-9):
            out.bad(f"equation-value-differs:{root}:{pchanged}", var=v, got=g, want=w, eq=str(eq)[:200])
            return out
    # Jacobian (floor division is not differentiable: nothing to compare)
    nonsmooth = any(h["fn"]["name"] in ("floordiv2", "mod_half", "neg_mod") for _, _, p in spec["decls"] for h in ([p] if "fn" in p else []) + [c for c in (p.get("stoich") or {}).values() if isinstance(c, dict)] + ([p["ia"]] if "ia" in p else []))
    if nonsmooth:
        out.classes.append("nonsmooth-jacobian-skipped")
        return out
    try:
        J = sm.jacobian()
        Jc = np.array(sympy.N(J.xreplace(sub)).tolist(), dtype=complex)
        if not np.all(np.isfinite(Jc)) or np.any(np.abs(Jc.imag) > 0):
            # the derivative does not exist at this point (sqrt at 0, 0**x * log 0, ...): nothing to compare
            out.classes.append("jacobian-nonfinite-at-singular-point")
            return out
        Jn = Jc.real.astype(float)
    except Exception as e:  # noqa: BLE001
        out.bad(f"jacobian-not-evaluable:{type(e).__name__}:{root}", error=repr(e)[:200])
        return out
    Jfd, Jerr = _num_jac(m, case["time"], y)
    if not np.all(np.isfinite(Jn)):
        # e.g. 0**x * log(0) when a power's base is exactly 0 at this point: the derivative does not exist there
        out.classes.append("jacobian-nonfinite-at-singular-point")
        return out
    if "conditional_rate_law" not in feats:  # conditionals are not differentiable at their boundary
        scale = 1 + np.abs(Jfd).max()
        if not np.all(np.abs(Jn - Jfd) <= 1e-5 * scale + 2 * Jerr):
            out.bad(f"jacobian-differs:{root}", symbolic=Jn.tolist(), finite_difference=Jfd.tolist())
            return out
    out.classes.append("jacobian-compared")

    # simulation with Jacobian
    if case["simulate"]:
        horizon = 5.0 if case.get("stiff") else 0.2
        if case.get("stiff"):
            out.classes.append("stiff")
        m0 = build(spec)
        # only tame dynamics: generated nonlinear right-hand sides can blow up in finite time,
        # which makes the plain reference integration crawl
        if not case.get("stiff"):
            try:
                ic = m0.get_initial_conditions()
                r1 = np.array(m0(0.0, list(ic.values())), dtype=float)
                r2 = np.array(m0(0.0, [2.0 * v for v in ic.values()]), dtype=float)
                tame = np.all(np.isfinite(r1)) and np.all(np.isfinite(r2)) and np.abs(r1).max() <= 20 and np.abs(r2).max() <= 200
            except Exception:  # noqa: BLE001
                tame = False
            if not tame:
                out.classes.append("simulation-skipped-untame")
                return out
        try:
            ref = Simulator(m0).simulate(horizon, steps=4).get_result().value
        except Exception:  # noqa: BLE001
            ref = None
        if ref is None or isinstance(ref, Exception) or not np.all(np.isfinite(ref.variables.to_numpy())):
            out.classes.append("simulation-skipped")
            return out
        for method in ("Radau", "BDF", "LSODA"):
            m1 = build(spec)
            try:
                with warnings.catch_warnings():
                    warnings.simplefilter("ignore")
                    s = Simulator(m1, use_jacobian=True, integrator=partial(Scipy, method=method))
                    calls = [0]
                    jac = s.integrator.jacobian
                    if jac is not None:

                        def counted(t, x, jac=jac, calls=calls):
                            calls[0] += 1
                            return jac(t, x)

                        s.integrator.jacobian = counted
                    r = s.simulate(horizon, steps=4).get_result().value
            except Exception as e:  # noqa: BLE001
                # numerical trouble inside scipy (non-finite states) also hits the Jacobian-free run of the
                # same method; only failures that the plain run does not show are attributed to the Jacobian
                try:
                    Simulator(build(spec), integrator=partial(Scipy, method=method)).simulate(horizon, steps=4)
                    plain_ok = True
                except Exception:  # noqa: BLE001
                    plain_ok = False
                if isinstance(e, (ValueError, ArithmeticError)) and "infs or NaNs" in str(e):
                    # the analytic Jacobian is non-finite at a singular point of a degenerate generated model
                    # (0/0 that the rate law itself only approaches): numerical, not structural
                    out.classes.append(f"numerical-trouble-with-jacobian:{method}")
                elif plain_ok or isinstance(e, (TypeError, KeyError, NameError, AttributeError)):
                    out.bad(f"simulate-with-jacobian-crashes:{method}:{type(e).__name__}", error=repr(e)[:200])
                else:
                    out.classes.append(f"method-fails-without-jacobian-too:{method}")
                continue
            if jac is None:
                out.classes.append(f"jacobian-fallback:{method}")
                continue
            if calls[0] > 0:
                out.classes.append(f"jacobian-invoked:{method}")
                out.nontrivial = gm.structure_key(spec)
            if isinstance(r, Exception):
                # an integration failure is reported as a failure value (allowed); the equations themselves
                # were already compared pointwise above
                out.classes.append(f"integration-failure-with-jacobian:{method}")
                continue
            # same method without the Jacobian (the default-method run above only filters untame models)
            try:
                plain = Simulator(build(spec), integrator=partial(Scipy, method=method)).simulate(horizon, steps=4).get_result().value
            except Exception:  # noqa: BLE001
                plain = None
            if plain is None or isinstance(plain, Exception):
                out.classes.append(f"method-fails-without-jacobian-too:{method}")
                continue
            if "conditional_rate_law" in feats or nonsmooth:
                # a discontinuous right-hand side is not integrated to tolerance by either run (the step sequences
                # differ across the jump): only crashes and the use of the Jacobian are judged
                out.classes.append(f"trajectory-not-compared-nonsmooth:{method}")
                continue
            # the states only: a derived quantity such as -p/x next to a zero crossing of x amplifies 1e-17 to anything
            a, b = r.variables[vn].to_numpy(), plain.variables[vn].to_numpy()
            if a.shape != b.shape or not np.all(np.abs(a - b) <= 1e-4 * (1 + np.abs(b))):
                out.bad(f"trajectory-differs-with-jacobian:{method}", with_jacobian=a[-1].tolist(), without=b[-1].tolist())
    return out


def floors(ctx) -> list[str]:
    c = []
    for k in ["jacobian-invoked:Radau", "jacobian-invoked:BDF", "jacobian-invoked:LSODA"]:
        if ctx.classes.get(k, 0) < 1:
            c.append(f"class {k} never occurred")
    if ctx.classes.get("jacobian-nonfinite-at-singular-point", 0) > 0.2 * max(1, ctx.classes.get("jacobian-compared", 0)):
        c.append("too many non-finite symbolic Jacobians")
    for k in ["lib:fns", "lib:rates", "feat:derived_declared_out_of_order", "feat:untouched_variable", "params_changed", "jacobian-compared"]:
        if ctx.classes.get(k, 0) < 5:
            c.append(f"class {k} only {ctx.classes.get(k, 0)}")
    return c
