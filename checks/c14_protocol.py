"""C14 — protocols: each step's parameter values hold exactly over its interval."""

from __future__ import annotations

import numpy as np
from hypothesis import strategies as st

from vlib import linear
from vlib.core import Outcome

ID = "C14"
LEVEL = "exploration"
DESIGN_REF = "DESIGN.md section 5, C14"
RULE = (
    "Generated linear switching-sensitive networks x'=A(p)x+b(p) x protocols of 1-5 steps (unequal durations: integer "
    "milliseconds or arbitrary floats; 1-3 parameters with identical keys per step; repeated values) x requested grids "
    "(coinciding with boundaries, between, beyond the end; relative or absolute) x fresh simulator or continued after "
    "simulate / simulate_time_course. Oracles: (1) exact piecewise propagation by matrix exponential; (2) the expected "
    "index set built from the statement (start, requested points inside, boundaries, each once) with boundaries in the "
    "documented pandas Timedelta arithmetic; (3) differential: simulate_protocol == manual loop of update_parameters + "
    "simulate; (4) fluxes of every row recomputed with the values of the step the row belongs to. Non-trivial: >=2 steps "
    "with different values AND a requested point strictly inside a step other than the first (time-course form) or >=2 "
    "steps with different values (plain form); distinct by (durations, keys, grid, mode, pre-history)."
)
ASSUMPTIONS = [
    "protocol steps carry identical parameter keys (documented rectangular shape)",
    "'requested points inside the protocol' = t_start < t <= t_end; a point equal to a boundary appears once",
    "index membership by exact float identity (a requested point one ulp from a boundary is a different point); boundaries as time reached + the step offsets in seconds (pandas total_seconds, trusted: scalar for simulate_protocol, vectorised for simulate_protocol_time_course, as the entry points compute them)",
    "continuation after a variable override is left to C04",
]
TECHNIQUE = "property-based testing against closed-form piecewise propagation + differential (protocol vs manual step loop) + expected-index-set oracle"
LEVEL_TEXT = "Generated protocols and grids, fresh and continued; states compared with the matrix exponential, index sets with the statement, fluxes with per-step recomputation, and the protocol form with an equivalent manual loop."
LEVEL_NOTE = "Trusted: vlib.linear.expm, pandas Timedelta arithmetic; linear networks only."


def budget(tier: str) -> dict:
    if tier == "quick":
        return {"examples": 800}
    return {"examples": 1200, "shards": 16, "fuzz_seconds": 45}


_rate = st.one_of(st.sampled_from([0.05, 0.25, 1.0, 2.0]), st.integers(5, 200).map(lambda i: i / 100))


@st.composite
def _case(draw):
    lin = draw(linear.lin_strategy())
    nsteps = draw(st.integers(1, 5))
    keys = draw(st.lists(st.integers(0, 8), min_size=1, max_size=3, unique=True))
    float_durs = draw(st.integers(0, 3)) == 0
    steps = []
    prev_vals = None
    for _ in range(nsteps):
        if float_durs:
            d = draw(st.floats(0.05, 6.0, allow_nan=False, allow_subnormal=False))
        else:
            d = draw(st.integers(50, 6000)) / 1000.0
        if prev_vals is not None and draw(st.integers(0, 4)) == 0:
            vals = dict(prev_vals)  # repeated values
        else:
            vals = {str(k): draw(_rate) for k in keys}
        prev_vals = vals
        steps.append([d, vals])
    mode = draw(st.sampled_from(["protocol", "protocol_tc", "protocol_tc", "protocol_tc"]))
    pre = draw(st.sampled_from(["fresh", "fresh", "simulate", "time_course"]))
    case = {"lin": lin, "steps": steps, "mode": mode, "pre": pre, "pre_dt": draw(st.integers(1, 80).map(lambda i: i / 8))}
    if mode == "protocol":
        case["tps"] = draw(st.integers(1, 6))
    else:
        total = sum(s[0] for s in steps)
        cum = np.cumsum([s[0] for s in steps]).tolist()
        pts = set()
        for _ in range(draw(st.integers(1, 8))):
            how = draw(st.sampled_from(["between", "between", "boundary", "beyond", "grid"]))
            if how == "between":
                pts.add(draw(st.integers(1, 999)) / 1000.0 * total)
            elif how == "boundary":
                pts.add(draw(st.sampled_from(cum)))
            elif how == "beyond":
                pts.add(total + draw(st.integers(1, 40)) / 8)
            else:
                pts.add(draw(st.integers(1, 60)) / 4)
        case["offsets"] = sorted(pts)
        case["relative"] = draw(st.booleans())
    return case


def strategy(tier: str):
    return _case()


def _tclose(a, b):
    # exact float identity: no time shift is involved here, so requested points pass through
    # unchanged, and two floats one ulp apart (a requested point next to a pandas-computed
    # boundary) are legitimately two different time points
    return a == b


def examine(case: dict, ctx) -> Outcome:
    import pandas as pd
    from mxlpy import Simulator, make_protocol

    out = Outcome()
    lin = case["lin"]
    pn = linear.param_names(lin)
    vn = linear.var_names(lin)
    steps = [[d, {pn[int(k) % len(pn)]: v for k, v in pv.items()}] for d, pv in case["steps"]]
    mode, pre = case["mode"], case["pre"]
    params0 = linear.params_of(lin)
    proto = make_protocol([(d, pv) for d, pv in steps])

    m = linear.build(lin)
    sim = Simulator(m)
    t0 = 0.0
    y0 = np.array(lin["x0"], dtype=float)
    nseg0 = 0
    if pre == "simulate":
        sim.simulate(case["pre_dt"], steps=3)
    elif pre == "time_course":
        sim.simulate_time_course([case["pre_dt"] / 2, case["pre_dt"]])
    if pre != "fresh":
        r0 = sim.get_result().value
        if isinstance(r0, Exception):
            out.skipped = "pre-history-failed"
            return out
        t0 = float(r0.variables.index[-1])
        y0 = r0.variables.iloc[-1][vn].to_numpy(dtype=float)
        nseg0 = len(r0.raw_variables)

    differ = any(steps[i][1] != steps[i + 1][1] for i in range(len(steps) - 1))
    out.classes = [mode, pre, f"steps={len(steps)}", "values_differ" if differ else "values_same"]
    key = [mode, pre, [s[0] for s in case["steps"]], sorted(case["steps"][0][1]), case.get("offsets"), case.get("relative"), case.get("tps")]

    # --- expected per-step parameter values and boundaries ---------------------------------------
    pcur = dict(params0)
    step_params = []
    for d, pv in steps:
        pcur = {**pcur, **pv}
        step_params.append(dict(pcur))
    if mode == "protocol":
        bounds = [t0 + x.total_seconds() for x in proto.index]
    else:
        bounds = [float(x) for x in (proto.index.total_seconds() + t0)]

    def bad(sig, **d):
        out.bad(f"{mode}:{pre}:{sig}", **d)

    # --- run --------------------------------------------------------------------------------------
    try:
        if mode == "protocol":
            sim.simulate_protocol(proto, time_points_per_step=case["tps"])
        else:
            offs = case["offsets"]
            pts_abs = [t0 + o for o in offs]
            arg = np.array(offs if case["relative"] else pts_abs, dtype=float)
            sim.simulate_protocol_time_course(proto, arg, time_points_as_relative=case["relative"])
    except Exception as e:  # noqa: BLE001
        bad("raises:" + type(e).__name__, error=str(e)[:200])
        return out
    res = sim.get_result().value
    if isinstance(res, Exception):
        bad("result-is-failure:" + type(res).__name__)
        return out
    segs = res.raw_variables[nseg0:]
    rps = res.raw_parameters[nseg0:]
    if len(segs) != len(steps):
        bad("segment-count", got=len(segs), want=len(steps))
        return out

    # --- expected index ---------------------------------------------------------------------------
    if mode == "protocol_tc":
        inside_any = False
        lo = t0
        exp_rows: list[list[float]] = []
        for i, bnd in enumerate(bounds):
            ins = [p for p in pts_abs if p > lo and p < bnd and not _tclose(p, lo) and not _tclose(p, bnd)]
            if i > 0 and ins:
                inside_any = True
            exp_rows.append(ins + [bnd])
            lo = bnd
        if pre == "fresh":
            exp_rows[0] = [0.0, *exp_rows[0]]
        if differ and inside_any:
            out.nontrivial = key
        if any(any(_tclose(p, b) for b in bounds) for p in pts_abs):
            out.classes.append("point_on_boundary")
        if any(p > bounds[-1] for p in pts_abs):
            out.classes.append("point_beyond_end")
    else:
        exp_rows = None
        if differ:
            out.nontrivial = key

    # --- rows, values, parameters, fluxes -------------------------------------------------------
    t, y = t0, y0
    fl_all = res.get_fluxes(concatenated=False)[nseg0:]
    for i, (df, rp) in enumerate(zip(segs, rps)):
        times = [float(x) for x in df.index]
        vals = df[vn].to_numpy(dtype=float)
        A, b = linear.A_b(lin, step_params[i])
        if exp_rows is not None:
            want = exp_rows[i]
            if len(times) != len(want) or not all(_tclose(a, w) for a, w in zip(times, want)):
                bad("index-set", step=i, got=times[:14], want=want[:14])
                return out
        else:
            body = times[1:] if (i == 0 and pre == "fresh") else times
            if i == 0 and pre == "fresh" and not _tclose(times[0], 0.0):
                bad("start-row-missing", got=times[:3])
                return out
            if len(body) != case["tps"]:
                bad("row-count", step=i, got=len(body), want=case["tps"])
                return out
            if not _tclose(body[-1], bounds[i]):
                bad("boundary-missing", step=i, got=body[-1], want=bounds[i])
                return out
        prev = None
        for tr in times:
            if prev is not None and not tr > prev:
                bad("index-not-increasing", step=i, got=times[:14])
                return out
            prev = tr
        for tr, yr in zip(times, vals):
            if i == 0 and pre == "fresh" and _tclose(tr, 0.0):
                want_y = y
            else:
                want_y = linear.propagate(A, b, y, tr - t)
            if not np.all(np.abs(yr - want_y) <= 1e-6 * (1 + np.abs(want_y).max())):
                bad("state-not-governed-by-step-values", step=i, time=tr, got=yr.tolist(), want=want_y.tolist())
                return out
        for name in pn:
            if name not in rp or abs(rp[name] - step_params[i][name]) > 1e-12 * (1 + abs(step_params[i][name])):
                bad("raw_parameters", step=i, name=name, got=rp.get(name), want=step_params[i][name])
                return out
        fdf = fl_all[i]
        for (tr, yr), (_, frow) in zip(zip(times, vals), fdf.iterrows()):
            wantf = linear.fluxes(lin, step_params[i], yr)
            for fname, fv in wantf.items():
                if abs(float(frow[fname]) - fv) > 1e-9 * (1 + abs(fv)):
                    bad("flux-not-using-step-values", step=i, time=tr, flux=fname, got=float(frow[fname]), want=fv)
                    return out
        t, y = times[-1], vals[-1]

    # --- differential: protocol == manual loop ------------------------------------------------------
    if mode == "protocol":
        m2 = linear.build(lin)
        sim2 = Simulator(m2)
        if pre == "simulate":
            sim2.simulate(case["pre_dt"], steps=3)
        elif pre == "time_course":
            sim2.simulate_time_course([case["pre_dt"] / 2, case["pre_dt"]])
        for (d, pv), bnd in zip(steps, bounds):
            sim2.update_parameters(pv)
            sim2.simulate(bnd, steps=case["tps"])
        r2 = sim2.get_result().value
        if isinstance(r2, Exception):
            bad("manual-loop-failed")
            return out
        a, b_ = res.variables, r2.variables
        if a.shape != b_.shape or not np.allclose(a.index.to_numpy(), b_.index.to_numpy(), rtol=0, atol=1e-12) or not np.allclose(a.to_numpy(), b_.to_numpy(), rtol=1e-9, atol=1e-12):
            bad("differs-from-manual-step-loop", protocol_index=list(a.index)[:10], manual_index=list(b_.index)[:10])
    return out


def floors(ctx) -> list[str]:
    c = []
    for k in ["protocol", "protocol_tc", "fresh", "simulate", "time_course", "values_differ", "point_on_boundary", "point_beyond_end"]:
        if ctx.classes.get(k, 0) < 5:
            c.append(f"class {k} only {ctx.classes.get(k, 0)}")
    return c
