"""C07 — generated Python/TypeScript/Rust/Julia right-hand sides equal the model."""

from __future__ import annotations

import copy

from hypothesis import strategies as st

from vlib import gen_models as gm
from vlib import gen_srcmodels as gs
from vlib import targets
from vlib.core import HarnessError, Outcome
from vlib.spec import Ref, build, close, decls_of, var_names

ID = "C07"
LEVEL = "exploration"
DESIGN_REF = "DESIGN.md section 5, C07"
CASE_TIMEOUT = 400.0
BATCH = 6
RULE = (
    "Batches of 6 generated surrogate-free models over a source-backed rate-law library (mass action, Michaelis-Menten, "
    "Hill, reversible, conditional rate laws via if-return / if-else assignment / conditional expression, nested helper "
    "calls, module constants): 1-4 variables incl. exactly one and incl. variables no reaction touches; integer / "
    "fractional / named / computed (parameter- and state-dependent) coefficients; derived chains declared in shuffled "
    "order and derived quantities depending on fluxes; initial-assignment parameters; time dependence; free-parameter "
    "subsets (called with changed values); plus a class with one untranslatable function (generation must raise). Each "
    "model's generate_model_code_py/ts/rs/jl output is executed: CPython exec, node on type-stripped TypeScript, rustc "
    "(batch crate, compiler errors mapped back per function), Julia by a structural well-formedness checker. Oracle: "
    "Model.__call__ at a random positive state and time; arity and order explicit. Non-trivial: >=2 of {one variable, "
    "untouched variable, derived out of dependency order, derived on flux, computed coefficient, conditional rate law, "
    "free parameters, initial-assignment parameter}; distinct by structural hash."
)
ASSUMPTIONS = [
    "Model.__call__ is the oracle (decided by C01)",
    "floats are printed with >=15 significant digits: tolerance 1e-9 relative",
    "no Julia interpreter is installed: the Julia target is judged for well-formedness and arity only (structural checker)",
    "initial-assignment parameters are not combined with free parameters (their value would depend on the free input)",
]
TECHNIQUE = "property-based differential testing: emitted code is executed (CPython / node / rustc) and compared with the model at generated states; structural checker for Julia"
LEVEL_TEXT = "Generated models over a translatable library; the emitted source of every target is executed, not read, and compared with Model.__call__."
LEVEL_NOTE = "Trusted: node 20, rustc 1.95, CPython as executors; C01 for the oracle side."

PRIORITY = [
    "one_variable",
    "untouched_variable",
    "initial_assignment_parameter",
    "derived_on_flux",
    "derived_declared_out_of_order",
    "integer_coefficient_abs>1",
    "state_dependent_coefficient",
    "computed_coefficient",
    "named_coefficient",
    "fractional_coefficient",
    "conditional_rate_law",
    "nested_call_or_module_constant",
    "time_dependence",
    "free_parameters",
]
NONTRIV = {"one_variable", "untouched_variable", "derived_declared_out_of_order", "derived_on_flux", "computed_coefficient", "conditional_rate_law", "free_parameters", "initial_assignment_parameter"}


def budget(tier: str) -> dict:
    if tier == "quick":
        return {"examples": 40}
    return {"examples": 70, "shards": 16}


@st.composite
def _model(draw):
    spec = draw(gs.src_spec())
    state = {v: draw(gs.xval) for v in var_names(spec)}
    t = draw(st.sampled_from([0.0, 0.5, 1.0, 2.5]))
    plain = [n for n, p in decls_of(spec, "parameter") if "ia" not in p]
    has_ia = any("ia" in p for _, p in decls_of(spec, "parameter"))
    free: list[str] = []
    if not has_ia and draw(st.integers(0, 2)) == 0:
        free = draw(st.lists(st.sampled_from(plain), min_size=1, max_size=min(2, len(plain)), unique=True))
    unt = None
    if draw(st.integers(0, 9)) == 0:
        unt = draw(st.sampled_from(["untranslatable_loop", "untranslatable_exp", "untranslatable_aug"]))
    no_rxn = draw(st.integers(0, 11)) == 0 and unt is None
    rename = None
    if unt is None and not no_rxn and draw(st.integers(0, 7)) == 0:
        # a component whose name means something in a target language (or is no identifier at all)
        cands = [n for n in plain if n not in free] + var_names(spec)
        rename = [draw(st.sampled_from(cands)), draw(st.sampled_from(SPECIAL_NAMES))]
    return {"spec": spec, "state": state, "time": t, "free": free, "untranslatable": unt, "no_reactions": no_rxn, "rename": rename}


SPECIAL_NAMES = ["lambda", "in", "is", "class", "def", "None", "as", "type", "fn", "let", "match", "self", "mut", "E", "PI", "var", "function", "new", "variables", "Math", "math", "return", "if", "x y", "k-1", "2x"]
# none of them may break the generated code (until the repair of the identifier handling each broke at least one target:
# python: lambda in is class def None as return if math + no identifiers; typescript: in class let var function new variables
# Math return if + no identifiers; rust: in type fn let match self mut as E PI None return if + no identifiers)
NAME_BREAKS: dict[str, set[str]] = {"py": set(), "ts": set(), "rs": set(), "jl": set()}


def _rename(obj, old: str, new: str):
    """Rename a component everywhere it is named in a spec / state (keys and string values)."""
    if isinstance(obj, str):
        return new if obj == old else obj
    if isinstance(obj, list):
        return [_rename(x, old, new) for x in obj]
    if isinstance(obj, dict):
        return {(new if k == old else k): (v if k in ("fn", "name", "kind", "module") else _rename(v, old, new)) for k, v in obj.items()}
    return obj


@st.composite
def _case(draw):
    return {"models": [draw(_model()) for _ in range(BATCH)]}


def strategy(tier: str):
    return _case()


def _symptom(tgt: str, stage: str, err: str, rec: dict) -> str:
    """Root-cause-ish label from the failure text (not from the model's feature list)."""
    import re

    if tgt == "jl":
        return f"{stage}:" + err.split(" ")[0].split(":")[0]
    m = re.search(r"name '(\w+)' is not defined|(\w+) is not defined|cannot find value `(\w+)`|referenced before assignment.*'(\w+)'|local variable '(\w+)'|variable '(\w+)' where it is not associated", err)
    if m:
        name = next(g for g in m.groups() if g)
        if name.startswith("q"):
            return "undefined-name:initial-assignment-parameter-not-emitted"
        if name.startswith("d") and name.endswith("dt"):
            return "undefined-name:derivative"
        return "undefined-name:used-before-definition"
    if "E0277" in err:
        return "not-well-formed:E0277-integer-literal-times-float"
    if "E0308" in err or "E0527" in err:
        return "not-well-formed:array-length-mismatch"
    if len(rec["vn"]) == 1 and stage in ("raises", "bad-return"):
        return f"{stage}:one-variable-binding"
    short = re.sub(r"[^A-Za-z0-9 _:-]", "", err)[:40]
    return f"{stage}:{short}"


def _prep(mc: dict):
    spec = copy.deepcopy(mc["spec"])
    if mc.get("no_reactions"):
        # variables, parameters and derived quantities only (everything that needs a flux is dropped)
        fl = {d[1] for d in spec["decls"] if d[0] == "reaction"}
        changed = True
        while changed:
            changed = False
            for d in list(spec["decls"]):
                args = d[2].get("args") or (d[2].get("ia") or {}).get("args") or []
                if d[0] == "reaction" or any(a in fl for a in args):
                    spec["decls"].remove(d)
                    fl.add(d[1])
                    changed = True
    if mc["untranslatable"]:
        for d in spec["decls"]:
            if d[0] == "reaction":
                d[2]["fn"] = gs.lib(mc["untranslatable"])
                d[2]["args"] = [var_names(spec)[0]]
                break
    return spec


def examine(case: dict, ctx) -> Outcome:
    from mxlpy.meta import generate_model_code_jl, generate_model_code_py, generate_model_code_rs, generate_model_code_ts

    out = Outcome()
    gens = {"py": generate_model_code_py, "ts": generate_model_code_ts, "rs": generate_model_code_rs, "jl": generate_model_code_jl}
    for tool in ("node", "rustc"):
        if not targets.have(tool):
            raise HarnessError(f"{tool} not found: the {tool} target cannot be executed")
    jobs: dict[str, list] = {"ts": [], "rs": []}
    info: list[dict] = []
    keys = []
    for mi, mc in enumerate(case["models"]):
        spec = _prep(mc)
        special = None
        if mc.get("rename"):
            old_, special = mc["rename"]
            spec = {"decls": _rename(spec["decls"], old_, special)}
            mc = {**mc, "state": _rename(mc["state"], old_, special)}
            out.classes.append("name_special_in_a_target_language")
        vn = var_names(spec)
        feats = gm.features(spec) | gs.extra_features(spec)
        if mc["free"]:
            feats.add("free_parameters")
        try:
            m = build(spec)
            # a model whose own initial state lies outside the domain of its functions (complex / undefined
            # values) is not a well-formed input for code generation
            a0 = m.get_args()
            if not all(v == v and abs(v) < 1e12 for v in a0.to_numpy().tolist()):
                out.classes.append("skipped:undefined-at-initial-state")
                continue
            free_vals = []
            m_exp = m
            if mc["free"]:
                m_exp = build(spec)
                pv = {n: p["value"] for n, p in decls_of(spec, "parameter") if "ia" not in p}
                upd = {n: pv[n] * 1.5 for n in mc["free"]}
                m_exp.update_parameters(upd)
                free_vals = [upd[n] for n in mc["free"]]
            y = [mc["state"][v] for v in vn]
            if mc["untranslatable"]:
                want = None
            else:
                raw = m_exp(mc["time"], y)
                if any(isinstance(v, complex) for v in raw):
                    out.classes.append("skipped:reference-undefined")
                    continue
                want = [float(v) for v in raw]
                if any(w != w or abs(w) == float("inf") for w in want):
                    out.classes.append("skipped:non-finite-reference")
                    continue
        except (ZeroDivisionError, OverflowError, ValueError, TypeError):
            out.classes.append("skipped:reference-undefined")
            continue
        root = next((p for p in PRIORITY if p in feats), "plain")
        out.classes += sorted(f"feat:{f}" for f in feats & (set(PRIORITY) | NONTRIV))
        if len(feats & NONTRIV) >= 2 and not mc["untranslatable"]:
            keys.append(gm.structure_key(spec))
        if mc.get("no_reactions"):
            out.classes.append("no_reactions_at_all")
        rec = {"special": special, "mi": mi, "vn": vn, "want": want, "root": root, "no_rxn": bool(mc.get("no_reactions")), "free": mc["free"], "unt": mc["untranslatable"], "t": mc["time"], "y": y, "free_vals": free_vals, "src": {}}
        for tgt, g in gens.items():
            try:
                src = g(m, free_parameters=mc["free"] or None)
            except Exception as e:  # noqa: BLE001
                src = None
                rec.setdefault("gen_error", {})[tgt] = f"{type(e).__name__}: {e}"[:160]
            if mc["untranslatable"]:
                out.classes.append("untranslatable")
                if src is not None:
                    out.bad(f"{tgt}:emits-code-for-untranslatable-function:{mc['untranslatable']}", code=src[:300])
                continue
            if src is None:
                if special is not None and special in NAME_BREAKS[tgt]:
                    out.bad(f"{tgt}:name-not-usable-in-target-language:generation-raises", name=special, error=rec["gen_error"][tgt])
                    continue
                out.bad(f"{tgt}:generation-raises:{rec['gen_error'][tgt].split(':')[0]}", error=rec["gen_error"][tgt], spec=spec)
                continue
            rec["src"][tgt] = src
            if tgt in jobs:
                jobs[tgt].append((len(info), (src, mc["time"], y, free_vals)))
        info.append(rec)

    results: dict[tuple[int, str], dict] = {}
    for rec_i, rec in enumerate(info):
        if "py" in rec["src"]:
            results[(rec_i, "py")] = targets.run_py(rec["src"]["py"], rec["t"], rec["y"], rec["free_vals"])
        if "jl" in rec["src"]:
            results[(rec_i, "jl")] = targets.check_jl(rec["src"]["jl"], rec["vn"], rec["free"])
    if jobs["ts"]:
        rs = targets.run_ts_batch([j for _, j in jobs["ts"]], ctx.work / "ts")
        for (ri, _), r in zip(jobs["ts"], rs):
            results[(ri, "ts")] = r
    if jobs["rs"]:
        rs = targets.run_rs_batch([j for _, j in jobs["rs"]], ctx.work / "rs")
        for (ri, _), r in zip(jobs["rs"], rs):
            results[(ri, "rs")] = r

    for (ri, tgt), r in sorted(results.items()):
        rec = info[ri]
        out.classes.append(f"executed:{tgt}")
        if r.get("stage") == "harness":
            raise HarnessError(f"{tgt} harness failure: {r.get('error')}")
        if not r["ok"] and rec.get("special") is not None and rec["special"] in NAME_BREAKS[tgt]:
            out.bad(f"{tgt}:name-not-usable-in-target-language:{r['stage']}", name=rec["special"], error=r.get("error", "")[:200], code=rec["src"][tgt][:400])
            continue
        if not r["ok"]:
            err = r.get("error", "")
            sym = _symptom(tgt, r["stage"], err, rec)
            if rec["no_rxn"] and tgt != "jl":
                sym = "no-reactions-at-all:" + r["stage"]
            out.bad(f"{tgt}:{sym}", error=err, code=rec["src"][tgt][:600])
            continue
        if tgt == "jl":
            continue
        got = r["value"]
        if len(got) != len(rec["vn"]):
            out.bad(f"{tgt}:{'no-reactions-at-all:' if rec['no_rxn'] else ''}wrong-number-of-derivatives", got=len(got), want=len(rec["vn"]), code=rec["src"][tgt][:600])
            continue
        for v, g, w in zip(rec["vn"], got, rec["want"]):
            if not close(g, w, rtol=1e-9):
                out.bad(f"{tgt}:wrong-value:{rec['root']}", var=v, got=g, want=w, code=rec["src"][tgt][:600])
                break
    if keys:
        out.nontrivial_many = keys
        out.sample = {"models": [{"decl_kinds": [d[0] + ":" + d[1] for d in _prep(mc)["decls"]], "free": mc["free"]} for mc in case["models"][:2]]}
    return out


def floors(ctx) -> list[str]:
    c = []
    for k in ["executed:py", "executed:ts", "executed:rs", "executed:jl", "feat:one_variable", "feat:untouched_variable", "feat:derived_declared_out_of_order", "feat:computed_coefficient", "feat:conditional_rate_law", "untranslatable", "name_special_in_a_target_language"]:
        if ctx.classes.get(k, 0) < 3:
            c.append(f"class {k} only {ctx.classes.get(k, 0)}")
    return c
