"""C13 — initial assignments resolve once at t=0; derived parameters are state-free."""

from __future__ import annotations

from hypothesis import strategies as st

from vlib import gen_models as gm
from vlib.core import Outcome
from vlib.spec import Ref, build, close, decls_of, var_names

ID = "C13"
LEVEL = "exploration"
DESIGN_REF = "DESIGN.md section 5, C13"
RULE = (
    "Generated specs with a high density of initial assignments on variables and parameters whose arguments reach other "
    "assignments, derived quantities, fluxes and surrogate outputs (declaration order shuffled), queried at the default "
    "state and at a second supplied state/time. Oracle: recursive reference resolution at t=0 from the declared initial "
    "state; reachability for the derived-parameter classification. Non-trivial: an assignment chain of depth>=2 or "
    "through a flux, AND the supplied state differs from the initial state in a variable that some assignment reads "
    "(directly or through a chain); distinct by structural hash."
)
ASSUMPTIONS = [
    "data sets and time are not parameters: a quantity reading them is not a derived parameter; a quantity without arguments is",
    "tolerance 1e-9 relative (same functions, same floats)",
]
TECHNIQUE = "property-based differential testing against a recursive reference resolver + reachability oracle for the derived-parameter classification"
LEVEL_TEXT = "Generated-input search over models with chained initial assignments; initial conditions, Simulator.y0, frozen-vs-recomputed values and the derived-parameter classification are compared with an independent resolver."
LEVEL_NOTE = "Trusted: vlib/spec.py reference resolver; generated functions are total."


def budget(tier: str) -> dict:
    if tier == "quick":
        return {"examples": 500}
    return {"examples": 4000, "shards": 16}


@st.composite
def _case(draw) -> dict:
    spec = draw(gm.full_spec(ia_weight=3, max_nodes=9, allow_readouts=False))
    # a chain of derived quantities over parameters only, placed anywhere in the declaration order
    plain0 = [n for n, p in decls_of(spec, "parameter") if "ia" not in p]
    if plain0 and draw(st.integers(0, 2)) == 0:
        import copy

        spec = copy.deepcopy(spec)
        chain: list[str] = []
        for i in range(draw(st.integers(2, 3))):
            pool = chain[-1:] + [draw(st.sampled_from(chain + plain0)) for _ in range(draw(st.integers(0, 2)))] if chain else [draw(st.sampled_from(plain0)) for _ in range(draw(st.integers(1, 2)))]
            name = f"dp{i}"
            d = ["derived", name, {"fn": draw(gm.fn_desc(len(pool))), "args": pool}]
            spec["decls"].insert(draw(st.integers(0, len(spec["decls"]))), d)
            chain.append(name)
    state2 = draw(gm.state_for(spec))
    t2 = draw(gm.time_value.filter(lambda t: t != 0.0))
    plain_vars = [n for n, p in decls_of(spec, "variable") if "ia" not in p]
    plain_pars = [n for n, p in decls_of(spec, "parameter") if "ia" not in p]
    upd_v = {n: draw(gm.value) for n in plain_vars if draw(st.integers(0, 1)) == 0}
    upd_p = {n: draw(gm.value) for n in plain_pars if draw(st.integers(0, 2)) == 0}
    return {"spec": spec, "state2": state2, "time2": t2, "update_variables": upd_v, "update_parameters": upd_p}


def strategy(tier: str):
    return _case()


def _reads(ref: Ref, name: str, seen: set) -> set:
    """All names reachable from `name` through argument chains (initial-resolution graph)."""
    if name in seen or name == "time":
        return seen
    seen.add(name)
    k = ref.kind.get(name)
    p = ref.payload.get(name, {})
    args: list[str] = []
    if k in ("variable", "parameter") and "ia" in p:
        args = p["ia"]["args"]
    elif k in ("derived", "reaction"):
        args = p["args"]
    elif k == "surrogate_output":
        args = ref.payload[ref.provider[name]]["args"]
    for a in args:
        _reads(ref, a, seen)
    return seen


def examine(case: dict, ctx) -> Outcome:
    from mxlpy import Simulator

    out = Outcome()
    spec = case["spec"]
    ref = Ref(spec)
    feats = gm.features(spec)
    vnames = var_names(spec)
    ini = ref.initial()
    ic = ref.initial_conditions()
    state2, t2 = case["state2"], case["time2"]

    # non-triviality
    ia_names = [n for k, n, p in spec["decls"] if k in ("variable", "parameter") and "ia" in p]
    deep = False
    reads_changed = False
    flux = set(ref.flux_names())
    for n in ia_names:
        r = _reads(ref, n, set()) - {n}
        if any((ref.kind.get(x) in ("variable", "parameter") and "ia" in ref.payload[x]) or x in flux or ref.kind.get(x) == "derived" for x in r):
            deep = True
        for v in vnames:
            if v in r and not close(state2[v], ic[v]):
                reads_changed = True
    out.classes = sorted(f for f in feats if f.startswith(("ia_", "initial_assignment")))
    if deep:
        out.classes.append("deep_assignment")
    if reads_changed:
        out.classes.append("state2_differs_in_read_variable")
    if deep and reads_changed:
        out.nontrivial = gm.structure_key(spec)
    dps = set(ref.derived_parameters())
    seen_d: set[str] = set()
    for k, n, p in spec["decls"]:
        if k == "derived":
            if n in dps and any(a in dps and a not in seen_d for a in p["args"]):
                out.classes.append("derived_parameter_declared_before_its_derived_parameter_argument")
                break
            seen_d.add(n)

    try:
        m = build(spec)
    except Exception as e:  # noqa: BLE001
        out.bad("build-raises:" + type(e).__name__, error=repr(e))
        return out

    def guard(label, fn):
        try:
            return fn()
        except Exception as e:  # noqa: BLE001
            out.bad(f"raises:{label}:{type(e).__name__}", error=repr(e)[:300])
            return None

    # 1 initial conditions
    got_ic = guard("get_initial_conditions", lambda: dict(m.get_initial_conditions()))
    if got_ic is not None:
        if list(got_ic) != vnames:
            out.bad("ic:order", got=list(got_ic), want=vnames)
        else:
            for v in vnames:
                if not close(got_ic[v], ic[v]):
                    out.bad("ic:value", var=v, got=got_ic[v], want=ic[v])
                    break
    # 2 simulator default start
    sim = guard("Simulator", lambda: Simulator(m))
    if sim is not None:
        y0 = dict(sim.y0)
        for v in vnames:
            if v not in y0 or not close(y0[v], ic[v]):
                out.bad("y0:value", var=v, got=y0.get(v), want=ic[v])
                break
    # 3 default query: everything at t=0 from the initial state
    a0 = guard("get_args()", lambda: m.get_args())
    if a0 is not None:
        for n in a0.index:
            if n == "time":
                continue
            if not close(a0[n], ini[n]):
                out.bad("args0:value", name=n, kind=ref.kind.get(n), got=float(a0[n]), want=ini[n])
                break
    # 4 classification
    want_dp = ref.derived_parameters()
    want_dv = [n for n, _ in decls_of(spec, "derived") if n not in want_dp]
    got_dp = guard("get_derived_parameter_names", lambda: m.get_derived_parameter_names())
    got_dv = guard("get_derived_variable_names", lambda: m.get_derived_variable_names())
    if got_dp is not None and sorted(got_dp) != sorted(want_dp):
        out.bad("classification:derived_parameters", got=got_dp, want=want_dp)
    if got_dv is not None and sorted(got_dv) != sorted(want_dv):
        out.bad("classification:derived_variables", got=got_dv, want=want_dv)
    # 5 supplied state/time: assigned parameters + derived parameters frozen, the rest recomputed
    exp2 = ref.evaluate(state2, t2)
    a2 = guard("get_args(state2)", lambda: m.get_args(dict(state2), t2))
    if a2 is not None:
        for n in a2.index:
            if n == "time":
                continue
            if not close(a2[n], exp2[n]):
                k = ref.kind.get(n)
                frozen = (k == "parameter") or n in want_dp
                out.bad("args2:" + ("frozen-changed" if frozen else "not-recomputed"), name=n, kind=k, got=float(a2[n]), want=exp2[n])
                break
        for n in want_dp + [n for n, p in decls_of(spec, "parameter")]:
            if n in a2.index and a0 is not None and n in a0.index and not close(a2[n], a0[n]):
                out.bad("args2:frozen-value-moved", name=n, at0=float(a0[n]), at2=float(a2[n]))
                break
    exp_rhs, scale = ref.rhs(state2, t2)
    r2 = guard("get_right_hand_side(state2)", lambda: m.get_right_hand_side(dict(state2), t2))
    if r2 is not None:
        for v in vnames:
            if not close(r2[v], exp_rhs[v], scale[v]):
                out.bad("rhs2:value", var=v, got=float(r2[v]), want=exp_rhs[v])
                break
    # 6 the model's own parameter-value view lists plain parameters only, unchanged
    pv = guard("get_parameter_values", lambda: dict(m.get_parameter_values()))
    if pv is not None:
        for n, p in decls_of(spec, "parameter"):
            if "ia" not in p and (n not in pv or not close(pv[n], p["value"])):
                out.bad("parameter_values:plain", name=n, got=pv.get(n), want=p["value"])
                break
    # 7 new declared initial values / parameter values through the public API, after the queries above:
    #   assignments must be resolved again from the *new* declared state
    uv, up = case.get("update_variables") or {}, case.get("update_parameters") or {}
    if uv or up:
        import copy

        spec2 = copy.deepcopy(spec)
        for d in spec2["decls"]:
            if d[0] == "variable" and d[1] in uv:
                d[2]["value"] = uv[d[1]]
            if d[0] == "parameter" and d[1] in up:
                d[2]["value"] = up[d[1]]
        ref2 = Ref(spec2)
        ini2 = ref2.initial()
        out.classes.append("declared_values_updated_after_queries")
        try:
            if uv:
                m.update_variables(dict(uv))
            if up:
                m.update_parameters(dict(up))
        except Exception as e:  # noqa: BLE001
            out.bad(f"raises:update:{type(e).__name__}", error=repr(e)[:200])
            return out
        ic2 = guard("get_initial_conditions-after-update", lambda: dict(m.get_initial_conditions()))
        if ic2 is not None:
            for v in vnames:
                if not close(ic2[v], ini2[v]):
                    out.bad("after-update:initial-conditions-not-re-resolved", var=v, got=ic2[v], want=ini2[v], updated=sorted(uv) + sorted(up))
                    break
        a3 = guard("get_args-after-update", lambda: m.get_args())
        if a3 is not None:
            for n in a3.index:
                if n != "time" and not close(a3[n], ini2[n]):
                    out.bad("after-update:values-not-re-resolved", name=n, kind=ref.kind.get(n), got=float(a3[n]), want=ini2[n], updated=sorted(uv) + sorted(up))
                    break
        sim2 = guard("Simulator-after-update", lambda: Simulator(m))
        if sim2 is not None:
            y02 = dict(sim2.y0)
            for v in vnames:
                if not close(y02.get(v), ini2[v]):
                    out.bad("after-update:simulator-start-not-re-resolved", var=v, got=y02.get(v), want=ini2[v])
                    break
    return out


def floors(ctx) -> list[str]:
    c = []
    for k in ["deep_assignment", "state2_differs_in_read_variable", "ia_on_flux", "ia_on_ia", "ia_on_derived", "derived_parameter_declared_before_its_derived_parameter_argument"]:
        if ctx.classes.get(k, 0) < max(5, ctx.evaluations // 50):
            c.append(f"class {k} only {ctx.classes.get(k, 0)}/{ctx.evaluations}")
    return c
