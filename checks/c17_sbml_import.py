"""C17 — SBML import builds the model the document describes."""

from __future__ import annotations

import math
import shutil
from pathlib import Path

from hypothesis import strategies as st

from vlib.core import CaseTimeout, Outcome, in_sympy_piecewise_eval, raised_inside_sympy_piecewise
from vlib.spec import close

ID = "C17"
LEVEL = "exploration"
DESIGN_REF = "DESIGN.md section 5, C17"
CASE_TIMEOUT = 60.0
RULE = (
    "Generated SBML L3V2 documents, serialised with libsbml's own API (independent of MxlPy's exporter): 1-2 compartments "
    "with sizes != 1, 1-4 species (concentration or amount semantics via hasOnlySubstanceUnits, initialConcentration or "
    "initialAmount, boundary flag), constant and rule-defined parameters, 0-2 function definitions with permuted formal "
    "argument order, assignment rules on parameters and on species-reference ids (rule-defined stoichiometry), initial "
    "assignments, reactions with constant / fractional / rule-defined stoichiometry and kinetic laws with piecewise, "
    "power, exp, ln, function calls and time; identifiers from plain names, Python keywords and names the generated "
    "module itself uses (math, Model, Derived, scipy, np, InitialAssignment). Session class: two documents whose file "
    "stems normalise to the same module name are read one after the other. Oracle: an own evaluator over the abstract "
    "document (amount balance d n/dt = sum +-s*KL; concentration = n / V) compared with the imported model's initial "
    "values, parameter values and right-hand side at a random positive state, in whichever of the two representations "
    "(amount / concentration) the imported variable carries, identified by its initial value. Non-trivial: document has "
    "a function definition or rule-defined stoichiometry or a non-plain identifier or a compartment size != 1, and >=2 "
    "species; distinct by document structure."
)
ASSUMPTIONS = [
    "subset restricted to constructs with one unambiguous SBML reading; all values positive; ln/division arguments are 1+x",
    "the imported variable may carry amount or concentration; the representation is identified by its initial value (sizes != 1, initial values != 0)",
    "findings rooted in the pysbml dependency cannot be repaired in the repository; they are listed as known findings by document feature",
    "tolerance 1e-9 relative",
]
TECHNIQUE = "property-based differential testing: libsbml-serialised generated documents, imported model vs an independent evaluator of the abstract document; two-document session histories"
LEVEL_TEXT = "Generated documents over a rich unambiguous subset incl. awkward identifiers and same-stem sessions; the imported model's numbers are compared with an independent evaluation of the document."
LEVEL_NOTE = "Trusted: libsbml for serialisation, the evaluator in this file; pysbml is part of the path under test (dependency)."

PLAIN = ["S1", "A", "glc", "X_2", "B", "k1", "Vmax", "Km", "kf", "n_h", "ratio", "v1", "r_out", "flux3", "f_mm", "g2", "cell", "cyt"]
KEYWORDS = ["lambda", "class", "if", "is", "def", "None", "in", "pass"]
MODULE_NAMES = ["math", "Model", "Derived", "scipy", "np", "InitialAssignment", "create_model"]


def budget(tier: str) -> dict:
    if tier == "quick":
        return {"examples": 160}
    return {"examples": 900, "shards": 16}


# ----------------------------------------------------------------------
# expression trees


class EG:
    def __init__(self, draw, syms, fns):
        self.draw = draw
        self.syms = syms
        self.fns = fns
        self.feats: set[str] = set()

    def atom(self):
        d = self.draw
        if self.syms and d(st.integers(0, 3)) > 0:
            return ["sym", d(st.sampled_from(self.syms))]
        return ["num", d(st.sampled_from([0.5, 1.0, 2.0, 1.5, 3.0, 0.25]))]

    def expr(self, depth):
        d = self.draw
        if depth <= 0:
            return self.atom()
        k = d(st.sampled_from(["atom", "+", "*", "-", "/", "pow", "exp", "ln", "piecewise", "call", "time", "+", "*", "fn1", "minmax", "round", "logic", "rem"]))
        if k == "atom":
            return self.atom()
        if k == "fn1":
            # the MathML function table; the argument u = x / (1 + x^2) lies in [-0.5, 0.5]
            self.feats.add("mathml_function")
            x = self.expr(depth - 1)
            if d(st.integers(0, 2)) == 0:
                # one table function inside another (code printers that rewrite a function rewrite its argument too)
                f0 = d(st.sampled_from(sorted(FN1)))
                u0 = ["/", x, ["+", ["num", 1.0], ["*", x, x]]]
                if len(FN1[f0]) > 2:
                    u0 = ["*", ["num", FN1[f0][2]], u0]
                x = ["fn1", f0, u0 if FN1[f0][1] == 0.0 else ["+", ["num", FN1[f0][1]], u0]]
                self.feats.add("mathml_function_nested")
            if d(st.integers(0, 2)) == 0:
                x = ["-", x, ["num", 3.0]]  # usually negative: u is still in [-0.5, 0.5]
                self.feats.add("mathml_function_of_negative_value")
            u = ["/", x, ["+", ["num", 1.0], ["*", x, x]]]
            f = d(st.sampled_from(sorted(FN1)))
            if "mathml_function_nested" in self.feats and d(st.booleans()):
                # the functions a code printer has no name for and has to express through others
                f = d(st.sampled_from(["sec", "csc", "cot", "sech", "csch", "coth", "arcsec", "arccsc", "arccot", "arcsech", "arccsch", "arccoth"]))
            shift = FN1[f][1]
            if len(FN1[f]) > 2:
                u = ["*", ["num", FN1[f][2]], u]
            return ["fn1", f, u if shift == 0.0 else ["+", ["num", shift], u]]
        if k == "rem":
            # remainder of a positive value (floored and truncated definitions agree there), inside a product with a
            # negative factor half of the time
            self.feats.add("remainder")
            x = self.expr(depth - 1)
            r = ["rem", ["+", ["num", 1.0], ["*", x, x]], d(st.sampled_from([2.0, 0.5, 1.5]))]
            if d(st.booleans()):
                return ["neg", ["*", self.atom(), r]]
            return ["*", self.atom(), r]
        if k == "minmax":
            self.feats.add("mathml_function")
            return [d(st.sampled_from(["min", "max"])), [self.expr(depth - 1) for _ in range(d(st.integers(2, 3)))]]
        if k == "round":
            # floor / ceil away from their jumps: 2.5 + u/2 lies in [2.25, 2.75]
            self.feats.add("mathml_function")
            x = self.expr(depth - 1)
            u = ["/", x, ["+", ["num", 1.0], ["*", x, x]]]
            return ["fn1", d(st.sampled_from(["floor", "ceil"])), ["+", ["num", 2.5], ["*", ["num", 0.5], u]]]
        if k == "logic":
            # conditions combined with and / or / xor / not; comparisons between values at least 0.5 apart
            self.feats.add("logical_condition")
            a = self.expr(depth - 1)
            c1 = [d(st.sampled_from(["lt", "gt", "leq", "geq", "neq", "eq"])), a, ["+", a, ["num", d(st.sampled_from([0.5, -0.5, 1.0]))]]]
            b = self.expr(depth - 1)
            c2 = [d(st.sampled_from(["lt", "gt", "leq", "geq"])), b, ["-", b, ["num", d(st.sampled_from([0.5, -0.5]))]]]
            op = d(st.sampled_from(["and", "or", "xor", "not"]))
            cond = ["not", c1] if op == "not" else [op, c1, c2]
            return ["piecewise", self.expr(depth - 1), cond, self.expr(depth - 1)]
        if k in ("+", "*", "-"):
            return [k, self.expr(depth - 1), self.expr(depth - 1)]
        if k == "/":
            return ["/", self.expr(depth - 1), ["+", ["num", 1.0], self.expr(depth - 1)]]
        if k == "pow":
            self.feats.add("power")
            ex = d(st.sampled_from([2, 3, 0.5]))
            base = self.expr(depth - 1)
            if ex == 0.5:
                base = ["+", ["num", 1.0], ["*", base, base]]  # keep the root real
            return ["pow", base, ex]
        if k == "exp":
            self.feats.add("transcendental")
            if d(st.integers(0, 3)) == 0:
                # |e^-x|: computer algebra may answer e^-re(x)
                self.feats.add("abs_of_exponential")
                return ["fn1", "abs", ["exp", ["neg", self.expr(depth - 1)]]]
            return ["exp", ["neg", self.expr(depth - 1)]]
        if k == "ln":
            self.feats.add("transcendental")
            return ["ln", ["+", ["num", 1.0], self.expr(depth - 1)]]
        if k == "piecewise":
            self.feats.add("piecewise")
            return ["piecewise", self.expr(depth - 1), [d(st.sampled_from(["lt", "gt", "leq", "geq"])), self.expr(depth - 1), self.expr(depth - 1)], self.expr(depth - 1)]
        if k == "call" and self.fns:
            f = d(st.sampled_from(self.fns))
            self.feats.add("function_call")
            return ["call", f["id"], [self.expr(depth - 1) for _ in f["args"]]]
        if k == "time":
            self.feats.add("time")
            return ["+", ["num", 1.0], ["time"]]
        return self.atom()


# formula name -> (reference implementation, shift added to the bounded argument u in [-0.5, 0.5] to stay inside the domain)
FN1 = {
    "abs": (abs, 0.0),
    "sqrt": (math.sqrt, 1.0),
    "sin": (math.sin, 0.0),
    "cos": (math.cos, 0.0),
    "tan": (math.tan, 0.0),
    "sec": (lambda x: 1 / math.cos(x), 0.0),
    "csc": (lambda x: 1 / math.sin(x), 1.0),
    "cot": (lambda x: 1 / math.tan(x), 1.0),
    "sinh": (math.sinh, 0.0),
    "cosh": (math.cosh, 0.0),
    "tanh": (math.tanh, 0.0),
    "sech": (lambda x: 1 / math.cosh(x), 0.0),
    "csch": (lambda x: 1 / math.sinh(x), 1.0),
    "coth": (lambda x: 1 / math.tanh(x), 1.0),
    "arcsin": (math.asin, 0.0),
    "arccos": (math.acos, 0.0),
    "arctan": (math.atan, 0.0),
    "arcsec": (lambda x: math.acos(1 / x), 2.0),
    "arccsc": (lambda x: math.asin(1 / x), 2.0),
    "arccot": (lambda x: math.atan(1 / x), 2.0),
    "arcsinh": (math.asinh, 0.0),
    "arccosh": (math.acosh, 2.0),
    "arctanh": (math.atanh, 0.0),
    "arcsech": (lambda x: math.acosh(1 / x), 0.5, 0.8),  # argument in [0.1, 0.9]
    "arccsch": (lambda x: math.asinh(1 / x), 1.0),
    "arccoth": (lambda x: math.atanh(1 / x), 2.0),
    "log10": (math.log10, 1.0),
    "floor": (math.floor, 0.0),
    "ceil": (math.ceil, 0.0),
}


_TIES: list[str] = []  # comparisons the reference evaluation found within rounding distance of equality


def _cond_formula(c) -> str:
    if c[0] == "not":
        return f"!({_cond_formula(c[1])})"
    if c[0] in ("and", "or"):
        return f"(({_cond_formula(c[1])}) {'&&' if c[0] == 'and' else '||'} ({_cond_formula(c[2])}))"
    if c[0] == "xor":
        return f"xor({_cond_formula(c[1])}, {_cond_formula(c[2])})"
    return f"{c[0]}({to_formula(c[1])}, {to_formula(c[2])})"


def _cond_ev(c, env, fns, t) -> bool:
    if c[0] == "not":
        return not _cond_ev(c[1], env, fns, t)
    if c[0] == "and":
        return _cond_ev(c[1], env, fns, t) and _cond_ev(c[2], env, fns, t)
    if c[0] == "or":
        return _cond_ev(c[1], env, fns, t) or _cond_ev(c[2], env, fns, t)
    if c[0] == "xor":
        return _cond_ev(c[1], env, fns, t) != _cond_ev(c[2], env, fns, t)
    a, b = ev(c[1], env, fns, t), ev(c[2], env, fns, t)
    try:
        # (two textually identical operands are the same computation in any faithful implementation: not a tie)
        if abs(a - b) <= 1e-9 * max(1.0, abs(a), abs(b)) and to_formula(c[1]) != to_formula(c[2]):
            _TIES.append(_cond_formula(c)[:120])
    except TypeError:
        pass
    return {"lt": a < b, "gt": a > b, "leq": a <= b, "geq": a >= b, "eq": a == b, "neq": a != b}[c[0]]


def to_formula(e) -> str:
    k = e[0]
    if k == "fn1":
        return f"{e[1]}({to_formula(e[2])})"
    if k in ("min", "max"):
        return f"{k}({', '.join(to_formula(a) for a in e[1])})"
    if k == "rem":
        return f"rem({to_formula(e[1])}, {e[2]!r})"
    if k == "num":
        return repr(float(e[1]))
    if k == "sym":
        return e[1]
    if k == "time":
        return "time"
    if k in "+-*/":
        return f"({to_formula(e[1])} {k} {to_formula(e[2])})"
    if k == "neg":
        return f"(-{to_formula(e[1])})"
    if k == "pow":
        return f"pow({to_formula(e[1])}, {e[2]!r})"
    if k in ("exp", "ln"):
        return f"{k}({to_formula(e[1])})"
    if k == "piecewise":
        return f"piecewise({to_formula(e[1])}, {_cond_formula(e[2])}, {to_formula(e[3])})"
    if k == "call":
        return f"{e[1]}({', '.join(to_formula(a) for a in e[2])})"
    raise ValueError(k)


def ev(e, env: dict, fns: dict, t: float):
    k = e[0]
    if k == "fn1":
        return FN1[e[1]][0](ev(e[2], env, fns, t))
    if k in ("min", "max"):
        return (min if k == "min" else max)(ev(a, env, fns, t) for a in e[1])
    if k == "rem":
        return math.fmod(ev(e[1], env, fns, t), e[2])
    if k == "num":
        return float(e[1])
    if k == "sym":
        v = env[e[1]]
        return v() if callable(v) else v
    if k == "time":
        return t
    if k == "+":
        return ev(e[1], env, fns, t) + ev(e[2], env, fns, t)
    if k == "-":
        return ev(e[1], env, fns, t) - ev(e[2], env, fns, t)
    if k == "*":
        return ev(e[1], env, fns, t) * ev(e[2], env, fns, t)
    if k == "/":
        return ev(e[1], env, fns, t) / ev(e[2], env, fns, t)
    if k == "neg":
        return -ev(e[1], env, fns, t)
    if k == "pow":
        return ev(e[1], env, fns, t) ** e[2]
    if k == "exp":
        return math.exp(ev(e[1], env, fns, t))
    if k == "ln":
        return math.log(ev(e[1], env, fns, t))
    if k == "piecewise":
        return ev(e[1], env, fns, t) if _cond_ev(e[2], env, fns, t) else ev(e[3], env, fns, t)
    if k == "call":
        f = fns[e[1]]
        vals = [ev(a, env, fns, t) for a in e[2]]
        return ev(f["body"], dict(zip(f["args"], vals)), fns, t)
    raise ValueError(k)


# ----------------------------------------------------------------------
# documents


@st.composite
def _doc(draw, id_mode: str):
    pool = list(PLAIN)
    special = []
    if id_mode == "keywords":
        special = list(draw(st.permutations(KEYWORDS)))[:3]
    elif id_mode == "module_names":
        special = list(draw(st.permutations(MODULE_NAMES)))[:3]
    pool = list(draw(st.permutations(pool)))
    ids = iter(special + pool)
    feats: set[str] = set()
    ncomp = draw(st.integers(1, 2))
    # compartments keep plain names unless the id mode puts a special one there
    comp_special = draw(st.booleans())
    comps = []
    for _ in range(ncomp):
        comps.append({"id": next(ids) if comp_special else pool.pop(), "size": draw(st.sampled_from([2.0, 0.5, 4.0, 1.0]))})
    if any(c["size"] != 1.0 for c in comps):
        feats.add("compartment_size_not_1")
    species = []
    for _ in range(draw(st.integers(1, 4))):
        species.append(
            {
                "id": next(ids),
                "comp": draw(st.sampled_from(comps))["id"],
                "only_substance": draw(st.booleans()),
                "init_kind": draw(st.sampled_from(["conc", "amount"])),
                "init": draw(st.sampled_from([0.5, 1.0, 1.5, 3.0])),
                "boundary": draw(st.integers(0, 5)) == 0,
            }
        )
    if all(s["boundary"] for s in species):
        species[0]["boundary"] = False
    params = [{"id": next(ids), "value": draw(st.sampled_from([0.25, 0.5, 1.0, 2.0, 3.0])), "constant": True} for _ in range(draw(st.integers(1, 4)))]
    const_syms = [p["id"] for p in params]
    functions = []
    for _ in range(draw(st.integers(0, 2))):
        fargs = [f"arg{j}" for j in range(draw(st.integers(1, 3)))]
        g = EG(draw, fargs, list(functions))  # a function may call the ones generated before it
        body = g.expr(2)
        if functions and draw(st.booleans()):
            callee = draw(st.sampled_from(functions))
            body = ["+", body, ["call", callee["id"], [g.expr(1) for _ in callee["args"]]]]
            g.feats.add("function_call")
        if "function_call" in g.feats:
            feats.add("function_calls_function")
        fid = next(ids)
        if fid == "lambda":
            # `lambda(...)` in libsbml's formula syntax is the lambda construct, not a call of a function with that id
            fid = next(ids)
        functions.append({"id": fid, "args": list(draw(st.permutations(fargs))), "body": body})
        feats.add("function_definition")
    if "function_calls_function" in feats and draw(st.booleans()):
        # SBML L3 puts no order on function definitions: list a caller before its callee
        functions.reverse()
        feats.add("function_listed_before_its_callee")
    state_syms = const_syms + [s["id"] for s in species]
    rules = []
    if draw(st.integers(0, 2)) == 0:
        g = EG(draw, state_syms, functions)
        pid = next(ids)
        params.append({"id": pid, "value": None, "constant": False})
        rules.append({"var": pid, "expr": g.expr(2)})
        feats.add("assignment_rule")
        feats.update(g.feats)
        state_syms = [*state_syms, pid]
    inits = []
    if draw(st.integers(0, 4)) == 0:
        # a chain of initial assignments on parameters, listed in either order; the upstream parameter also
        # has a value attribute that the document overrides
        g = EG(draw, const_syms, [])
        up, down = next(ids), next(ids)
        params.append({"id": up, "value": draw(st.sampled_from([0.5, 2.0, 3.0])), "constant": True, "ia": True})
        params.append({"id": down, "value": 1.0, "constant": True, "ia": True})
        chain = [{"symbol": up, "expr": ["+", ["num", 0.25], g.expr(1)]}, {"symbol": down, "expr": ["*", ["sym", up], ["num", draw(st.sampled_from([0.5, 2.0, 1.5]))]]}]
        if draw(st.booleans()):
            chain.reverse()
            feats.add("initial_assignment_chain_listed_downstream_first")
        inits.extend(chain)
        state_syms = [*state_syms, up, down]
        feats.add("initial_assignment_chain")
    elif draw(st.integers(0, 3)) == 0:
        g = EG(draw, const_syms, [])
        tgt = draw(st.sampled_from(["parameter", "species"]))
        if tgt == "parameter":
            pid = next(ids)
            params.append({"id": pid, "value": 1.0, "constant": True, "ia": True})
            inits.append({"symbol": pid, "expr": g.expr(1)})
            state_syms = [*state_syms, pid]
        else:
            cand = [s for s in species if not s["boundary"]]
            inits.append({"symbol": cand[0]["id"], "expr": g.expr(1)})
        feats.add("initial_assignment_" + tgt)
    reactions = []
    nsr = 0
    for _ in range(draw(st.integers(1, 3))):
        g = EG(draw, state_syms, functions)
        law = ["*", ["sym", draw(st.sampled_from(const_syms))], g.expr(2)]
        feats.update(g.feats)
        sides = {"reactants": [], "products": []}
        used = set()
        for side in ("reactants", "products"):
            for _ in range(draw(st.integers(0, 2))):
                sp = draw(st.sampled_from(species))
                if sp["id"] in used:
                    continue
                used.add(sp["id"])
                kind = draw(st.sampled_from(["int", "int", "frac", "rule"]))
                if kind == "int":
                    sto = draw(st.sampled_from([1, 2]))
                elif kind == "frac":
                    sto = draw(st.sampled_from([0.5, 1.5]))
                    feats.add("fractional_stoichiometry")
                else:
                    nsr += 1
                    srid = f"sref_{nsr}"
                    gg = EG(draw, const_syms, [])
                    rules.append({"var": srid, "expr": ["+", ["num", 0.5], gg.expr(1)]})
                    sto = {"id": srid}
                    feats.add("rule_defined_stoichiometry")
                sides[side].append({"species": sp["id"], "stoich": sto})
        if not sides["reactants"] and not sides["products"]:
            sides["products"].append({"species": species[0]["id"], "stoich": 1})
        rx_ = {"id": next(ids), **sides, "law": law}
        if draw(st.integers(0, 3)) == 0:
            # a parameter local to the kinetic law; half of the time it hides a global parameter of the same id
            shadow = draw(st.booleans())
            lid = draw(st.sampled_from(const_syms)) if shadow else f"kloc_{len(reactions)}"
            rx_["local"] = {lid: draw(st.sampled_from([0.25, 1.5, 4.0]))}
            rx_["law"] = ["*", ["sym", lid], law]
            feats.add("local_parameter_hides_global" if shadow else "local_parameter")
        reactions.append(rx_)
    if special:
        feats.add(f"ids:{id_mode}")
    return {"comps": comps, "species": species, "params": params, "functions": functions, "rules": rules, "inits": inits, "reactions": reactions, "features": sorted(feats), "special_ids": special, "comp_special": comp_special and bool(special)}


@st.composite
def _case(draw, modes=("plain", "plain", "plain", "keywords", "module_names", "session")):
    mode = draw(st.sampled_from(list(modes)))
    overwrite = mode == "session_overwrite"
    if overwrite:
        mode = "session"
    doc = draw(_doc("plain" if mode == "session" else mode))
    case = {"mode": mode, "doc": doc, "amounts": [draw(st.sampled_from([0.4, 0.8, 1.3, 2.2, 3.5])) for _ in doc["species"]], "time": draw(st.sampled_from([0.0, 0.7, 2.0]))}
    if mode == "session":
        case["doc2"] = draw(_doc("plain"))
        case["stems"] = ["overwritten", "overwritten"] if overwrite else draw(st.sampled_from([["Model-1", "model_1"], ["net.v2", "netv2"], ["same", "same"], ["My Model", "my-model"]]))
        case["same_path"] = case["stems"][0] == "overwritten"
    return case


def strategy(tier: str):
    return _case()


def strategies(tier: str):
    f = 3 if tier == "quick" else 12
    return [
        ("plain", _case(modes=("plain",)), 80 * f),
        ("keywords", _case(modes=("keywords",)), 25 * f),
        ("module_names", _case(modes=("module_names",)), 25 * f),
        ("session", _case(modes=("session",)), 30 * f),
        ("session_overwrite", _case(modes=("session_overwrite",)), 12 * f),
    ]


def write_doc(doc: dict, path: Path) -> None:
    import libsbml

    ns = libsbml.SBMLNamespaces(3, 2)
    d = libsbml.SBMLDocument(ns)
    m = d.createModel()
    m.setId("generated")
    for c in doc["comps"]:
        x = m.createCompartment()
        x.setId(c["id"])
        x.setConstant(True)
        x.setSize(c["size"])
        x.setSpatialDimensions(3)
    for s in doc["species"]:
        x = m.createSpecies()
        x.setId(s["id"])
        x.setCompartment(s["comp"])
        x.setConstant(False)
        x.setBoundaryCondition(s["boundary"])
        x.setHasOnlySubstanceUnits(s["only_substance"])
        if s["init_kind"] == "conc":
            x.setInitialConcentration(s["init"])
        else:
            x.setInitialAmount(s["init"])
    for p in doc["params"]:
        x = m.createParameter()
        x.setId(p["id"])
        x.setConstant(p["constant"])
        if p["value"] is not None:
            x.setValue(p["value"])
    for f in doc["functions"]:
        x = m.createFunctionDefinition()
        x.setId(f["id"])
        x.setMath(libsbml.parseL3Formula(f"lambda({', '.join(f['args'])}, {to_formula(f['body'])})"))
    for r in doc["rules"]:
        x = m.createAssignmentRule()
        x.setVariable(r["var"])
        x.setMath(libsbml.parseL3Formula(to_formula(r["expr"])))
    for ia in doc["inits"]:
        x = m.createInitialAssignment()
        x.setSymbol(ia["symbol"])
        x.setMath(libsbml.parseL3Formula(to_formula(ia["expr"])))
    for r in doc["reactions"]:
        x = m.createReaction()
        x.setId(r["id"])
        x.setReversible(False)
        for side, mk in (("reactants", x.createReactant), ("products", x.createProduct)):
            for sr in r[side]:
                y = mk()
                y.setSpecies(sr["species"])
                if isinstance(sr["stoich"], dict):
                    y.setId(sr["stoich"]["id"])
                    y.setConstant(False)
                else:
                    y.setStoichiometry(float(sr["stoich"]))
                    y.setConstant(True)
        kl = x.createKineticLaw()
        kl.setMath(libsbml.parseL3Formula(to_formula(r["law"])))
        for lid, lval in (r.get("local") or {}).items():
            lp = kl.createLocalParameter()
            lp.setId(lid)
            lp.setValue(lval)
    if not libsbml.writeSBMLToFile(d, str(path)):
        raise RuntimeError("libsbml could not write the document")


# ----------------------------------------------------------------------
# reference semantics


def reference(doc: dict, amounts: dict[str, float] | None, t: float):
    """-> (initial amounts, parameter values, d amount/dt per non-boundary species) evaluated at `amounts` (or the initial state)."""
    fns = {f["id"]: f for f in doc["functions"]}
    comp = {c["id"]: c["size"] for c in doc["comps"]}
    sp = {s["id"]: s for s in doc["species"]}
    const = {p["id"]: p["value"] for p in doc["params"] if p["constant"]}
    ia_syms = {ia["symbol"] for ia in doc["inits"]}
    for _ in range(len(doc["inits"]) + 1):  # as many passes as there are assignments: any listing order
        for ia in doc["inits"]:
            if ia["symbol"] in const:
                const[ia["symbol"]] = ev(ia["expr"], {**const, **comp}, fns, 0.0)
    del ia_syms
    init_amount = {}
    for s in doc["species"]:
        v = comp[s["comp"]]
        init_amount[s["id"]] = s["init"] * v if s["init_kind"] == "conc" else s["init"]
    for ia in doc["inits"]:
        if ia["symbol"] in sp:
            val = ev(ia["expr"], {**const, **comp}, fns, 0.0)  # in the species' own units
            s = sp[ia["symbol"]]
            init_amount[s["id"]] = val if s["only_substance"] else val * comp[s["comp"]]
    n = dict(init_amount)
    if amounts:
        n.update(amounts)
    env: dict = {**const, **comp}
    for s in doc["species"]:
        env[s["id"]] = n[s["id"]] if s["only_substance"] else n[s["id"]] / comp[s["comp"]]
    rules = {r["var"]: r["expr"] for r in doc["rules"]}
    memo: dict = {}

    def mk(var):
        def f():
            if var not in memo:
                memo[var] = ev(rules[var], env, fns, t)
            return memo[var]

        return f

    for var in rules:
        env[var] = mk(var)
    dn = {s["id"]: 0.0 for s in doc["species"] if not s["boundary"]}
    fluxes = {}
    for r in doc["reactions"]:
        v = ev(r["law"], {**env, **(r.get("local") or {})}, fns, t)
        fluxes[r["id"]] = v
        for side, sign in (("reactants", -1.0), ("products", 1.0)):
            for sr in r[side]:
                if sr["species"] in dn:
                    sto = env[sr["stoich"]["id"]]() if isinstance(sr["stoich"], dict) else float(sr["stoich"])
                    dn[sr["species"]] += sign * sto * v
    rule_vals = {var: env[var]() for var in rules}
    return init_amount, const, dn, fluxes, rule_vals, comp, env


def _find(name: str, have) -> str | None:
    if name in have:
        return name
    for cand in (name + "_", "_" + name, name + "__"):
        if cand in have:
            return cand
    return None


def _piecewise_inside_condition(doc: dict) -> bool:
    """Some piecewise of the document has another piecewise inside its condition."""

    def has_pw(e) -> bool:
        return isinstance(e, list) and ((bool(e) and e[0] == "piecewise") or any(has_pw(x) for x in e))

    def walk(e) -> bool:
        if isinstance(e, dict):
            return any(walk(x) for x in e.values())
        if not isinstance(e, list):
            return False
        if e and e[0] == "piecewise" and len(e) == 4 and has_pw(e[2]):
            return True
        return any(walk(x) for x in e)

    return walk([doc["reactions"], doc["rules"], doc["inits"], doc["functions"]])


def _has_xor(doc: dict) -> bool:
    import json

    return '["xor"' in json.dumps([doc["reactions"], doc["rules"], doc["inits"], doc["functions"]])


def _reference_defined(doc: dict) -> bool:
    try:
        init_amount, const, dn0, fl0, rv0, _, _ = reference(doc, None, 0.0)
    except (ZeroDivisionError, OverflowError, ValueError, TypeError):
        return False
    vals = [*init_amount.values(), *const.values(), *dn0.values(), *fl0.values(), *rv0.values()]
    return all(not isinstance(v, complex) and v == v and abs(v) < 1e9 for v in vals)


def _boundary_species_in_math(doc: dict) -> dict | None:
    import json

    text = json.dumps([[r["law"] for r in doc["reactions"]], [r["expr"] for r in doc["rules"]]])
    for s_ in doc["species"]:
        if s_["boundary"] and json.dumps(["sym", s_["id"]]) in text:
            return s_
    return None


def compare(doc: dict, m, amounts: list[float], t: float, out: Outcome, tag: str) -> None:
    sp = {s["id"]: s for s in doc["species"]}
    try:
        init_amount, const, dn0, fl0, rv0, comp, _ = reference(doc, None, 0.0)
    except (ZeroDivisionError, OverflowError, ValueError):
        out.skipped = "reference-undefined"
        return
    ref0 = [*init_amount.values(), *const.values(), *dn0.values(), *fl0.values(), *rv0.values()]
    ref0_ok = all(not isinstance(v, complex) and v == v and abs(v) < 1e9 for v in ref0)
    try:
        ic = dict(m.get_initial_conditions())
        args0 = m.get_args()
    except (TypeError, ZeroDivisionError, OverflowError, ValueError) as e:
        if not ref0_ok:
            out.skipped = f"imported-model-undefined-at-initial-state:{type(e).__name__}"
            return
        # the document's mathematics is defined (real, finite) at its own initial state, the imported model's is not
        root_ = "ids:keywords" if "ids:keywords" in doc["features"] else ("ids:module_names" if "ids:module_names" in doc["features"] else "plain-ids")
        b0 = _boundary_species_in_math(doc)
        if b0 is not None:
            # a boundary species enters the math in the wrong unit (known finding): 1 + (n - B) can then be 0
            root_ = f"boundary-species-in-math:{'amount' if b0['only_substance'] else 'concentration'}-semantics:init-{b0['init_kind']}"
        out.bad(f"{tag}imported-model-cannot-be-evaluated:{type(e).__name__}:{root_}", error=repr(e)[:200])
        return
    except Exception as e:  # noqa: BLE001
        root_ = "ids:keywords" if "ids:keywords" in doc["features"] else ("ids:module_names" if "ids:module_names" in doc["features"] else "plain-ids")
        out.bad(f"{tag}imported-model-cannot-be-evaluated:{type(e).__name__}:{root_}", error=repr(e)[:200])
        return
    feats = set(doc["features"])
    def _syms(e, acc):
        if isinstance(e, list):
            if e and e[0] == "sym":
                acc.add(e[1])
            for x in (e[1:] if e and isinstance(e[0], str) else e):
                _syms(x, acc)
        return acc

    used = set()
    for r_ in doc["reactions"]:
        _syms(r_["law"], used)
    for r_ in doc["rules"]:
        _syms(r_["expr"], used)
    bmath = [s for s in doc["species"] if s["boundary"] and s["id"] in used]
    root = next((f for f in ["ids:keywords", "ids:module_names", "rule_defined_stoichiometry", "function_definition", "initial_assignment_species", "initial_assignment_parameter", "assignment_rule", "piecewise", "fractional_stoichiometry", "compartment_size_not_1"] if f in feats), "plain")
    # locate species and identify their representation
    rep = {}
    name_of = {}
    for s in doc["species"]:
        nm = _find(s["id"], ic if not s["boundary"] else args0.index)
        if nm is None:
            out.bad(f"{tag}species-not-found:{'boundary' if s['boundary'] else 'dynamic'}:{root}", species=s["id"], have=sorted(ic), params=sorted(args0.index)[:20])
            return
        name_of[s["id"]] = nm
        if nm != s["id"]:
            out.classes.append("identifier-renamed")
        got = float(ic[nm]) if not s["boundary"] else float(args0[nm])
        amt = init_amount[s["id"]]
        conc = amt / comp[s["comp"]]
        if s["boundary"]:
            # a boundary species enters the math in the units its flag says
            want = amt if s["only_substance"] else conc
            if not close(got, want):
                out.bad(f"boundary-species-value:{'amount' if s['only_substance'] else 'concentration'}-semantics:init-{s['init_kind']}", species=s["id"], got=got, want=want)
                return
            continue
        if close(got, amt) and close(got, conc):
            rep[s["id"]] = "either"
        elif close(got, amt):
            rep[s["id"]] = "amount"
        elif close(got, conc):
            rep[s["id"]] = "conc"
        else:
            has_ia = any(ia["symbol"] == s["id"] for ia in doc["inits"])
            out.bad(f"initial-value-differs:{'amount' if s['only_substance'] else 'concentration'}-semantics:init-{s['init_kind']}:{'initial-assignment' if has_ia else 'no-initial-assignment'}", species=s["id"], got=got, amount=amt, concentration=conc)
            return
    for p in doc["params"]:
        if p["constant"]:
            nm = _find(p["id"], args0.index)
            if nm is None:
                out.bad(f"{tag}parameter-not-found:{root}", parameter=p["id"], have=sorted(args0.index)[:20])
                return
            if not close(float(args0[nm]), const[p["id"]]):
                out.bad(f"{tag}parameter-value-differs:{'initial-assignment' if p.get('ia') else 'plain'}:{root}", parameter=p["id"], got=float(args0[nm]), want=const[p["id"]])
                return
    # a random state
    dyn = [s for s in doc["species"] if not s["boundary"]]
    amt_state = {s["id"]: a for s, a in zip(doc["species"], amounts) if not s["boundary"]}
    try:
        _, _, dn, fluxes, rule_vals, comp, _ = reference(doc, amt_state, t)
    except (ZeroDivisionError, OverflowError, ValueError):
        out.skipped = "reference-undefined"
        return
    if any(isinstance(v, complex) or v != v or abs(v) > 1e9 for v in [*dn.values(), *fluxes.values()]):
        out.skipped = "reference-non-finite"
        return
    state = dict(ic)
    for s in dyn:
        v = comp[s["comp"]]
        state[name_of[s["id"]]] = amt_state[s["id"]] if rep[s["id"]] == "amount" or (rep[s["id"]] == "either" and s["only_substance"]) else amt_state[s["id"]] / v
        if rep[s["id"]] == "either" and v != 1.0:
            # representation not identifiable from a zero/degenerate initial value: skip the dynamic comparison
            out.classes.append("representation-ambiguous")
            return
    try:
        rhs = m.get_right_hand_side(state, t)
    except Exception as e:  # noqa: BLE001
        out.bad(f"{tag}imported-model-raises:{type(e).__name__}:{root}", error=repr(e)[:200])
        return
    for s in dyn:
        v = comp[s["comp"]]
        want = dn[s["id"]] if (rep[s["id"]] == "amount" or (rep[s["id"]] == "either" and s["only_substance"])) else dn[s["id"]] / v
        got = float(rhs[name_of[s["id"]]])
        if not close(got, want, abs(want)):
            # does a boundary species reach this species' derivative (through a kinetic law, the rules it reads, or
            # as a participant whose coefficient is set by a rule)?
            rule_syms = {r_["var"]: _syms(r_["expr"], set()) for r_ in doc["rules"]}
            reach: set[str] = set()
            b_sref = []
            for r_ in doc["reactions"]:
                parts = r_["reactants"] + r_["products"]
                if not any(p_["species"] == s["id"] for p_ in parts):
                    continue
                todo = list(_syms(r_["law"], set())) + [p_["stoich"]["id"] for p_ in parts if isinstance(p_["stoich"], dict)]
                while todo:
                    x = todo.pop()
                    if x not in reach:
                        reach.add(x)
                        todo.extend(rule_syms.get(x, ()))
                b_sref += [sp[p_["species"]] for p_ in parts if isinstance(p_["stoich"], dict) and sp[p_["species"]]["boundary"]]
            b_math = [b for b in bmath if b["id"] in reach]
            droot = root
            if b_math:
                b0 = b_math[0]
                droot = f"boundary-species-in-math:{'amount' if b0['only_substance'] else 'concentration'}-semantics:init-{b0['init_kind']}"
            elif b_sref:
                droot = f"boundary-species-with-rule-defined-coefficient:{'amount' if b_sref[0]['only_substance'] else 'concentration'}-semantics"
            out.bad(f"{tag}derivative-differs:{droot}", species=s["id"], representation=rep[s["id"]], got=got, want=want, state=state, only_substance=s["only_substance"], size=v)
            return


_VALUE_SIGS = ("derivative-differs", "flux-differs", "rule-value-differs", "initial-value-differs", "parameter-value-differs", "boundary-species-value")


def examine(case: dict, ctx) -> Outcome:
    _TIES.clear()
    out = _examine(case, ctx)
    if _TIES and any(any(v in sig for v in _VALUE_SIGS) for sig, _ in out.verdicts):
        # the document's own mathematics sits on a discontinuity (a comparison between values that are equal up to
        # rounding, e.g. lt(ln(1 + 1), ln(1 + k)) at k = 1): either side is a faithful answer - not judged
        out.verdicts = [(sig, d_) for sig, d_ in out.verdicts if not any(v in sig for v in _VALUE_SIGS)]
        out.classes.append("mismatch-at-ill-conditioned-point:not-judged")
        out.nontrivial = None
    return out


def _examine(case: dict, ctx) -> Outcome:
    from mxlpy import sbml

    out = Outcome()
    doc = case["doc"]
    feats = set(doc["features"])
    out.classes = [f"mode:{case['mode']}"] + sorted(feats)
    work = ctx.work / "docs"
    if work.exists():
        shutil.rmtree(work)
    work.mkdir(parents=True)
    nontriv = len(doc["species"]) >= 2 and bool(feats & {"function_definition", "rule_defined_stoichiometry", "ids:keywords", "ids:module_names", "compartment_size_not_1"})
    key = [case["mode"], [(s["only_substance"], s["init_kind"], s["boundary"]) for s in doc["species"]], len(doc["functions"]), [to_formula(r["law"]) for r in doc["reactions"]], doc["special_ids"]]
    if case["mode"] != "session":
        import uuid

        f = work / f"doc_{uuid.uuid4().hex[:10]}.xml"
        try:
            write_doc(doc, f)
        except Exception as e:  # noqa: BLE001
            out.skipped = f"libsbml-rejects-document:{type(e).__name__}"
            return out
        root = "ids:keywords" if "ids:keywords" in feats else ("ids:module_names" if "ids:module_names" in feats else "plain-ids")
        try:
            m = sbml.read(f)
        except BaseException as e:  # noqa: BLE001
            if isinstance(e, (KeyboardInterrupt, SystemExit)):
                raise
            where = "compartment" if doc["comp_special"] else "other"
            if in_sympy_piecewise_eval(e):
                out.bad("read-raises:RecursionError:raised-in-sympy:Piecewise.eval-does-not-terminate", error=repr(e)[:200])
                return out
            if isinstance(e, KeyError) and "function_listed_before_its_callee" in feats and str(e).strip("'\"") in {f_["id"] for f_ in doc["functions"]}:
                out.bad("read-raises:KeyError:function-definition-listed-before-its-callee", error=repr(e)[:200])
                return out
            if isinstance(e, CaseTimeout):
                raise
            if raised_inside_sympy_piecewise(e) and not _has_xor(doc) and _piecewise_inside_condition(doc):
                out.bad(f"read-raises:{type(e).__name__}:raised-in-sympy:Piecewise-with-piecewise-inside-its-condition", error=repr(e)[:200])
                return out
            if raised_inside_sympy_piecewise(e) and _has_xor(doc):
                out.bad(f"read-raises:{type(e).__name__}:raised-in-sympy:Piecewise-with-xor-condition", error=repr(e)[:200])
                return out
            if not _reference_defined(doc):
                # the document's own mathematics is undefined at its initial state (ln of a negative constant ...): a reader
                # that evaluates constants while reading may refuse it
                out.skipped = "reference-undefined"
                return out
            out.bad(f"read-raises:{type(e).__name__}:{root}:{where}", error=repr(e)[:200], special=doc["special_ids"])
            return out
        if nontriv:
            out.nontrivial = key
            out.sample = {"species": doc["species"], "reactions": [{"id": r["id"], "law": to_formula(r["law"])} for r in doc["reactions"]], "functions": [{"id": f_["id"], "args": f_["args"], "body": to_formula(f_["body"])} for f_ in doc["functions"]]}
        compare(doc, m, case["amounts"], case["time"], out, "")
        return out

    # session: two documents whose stems normalise to the same module name
    doc2 = case["doc2"]
    d1, d2 = work / "a", work / "b"
    d1.mkdir()
    d2.mkdir()
    f1, f2 = d1 / f"{case['stems'][0]}.xml", d2 / f"{case['stems'][1]}.xml"
    if case.get("same_path"):
        f2 = f1  # the same file is edited and read again
        out.classes.append("session:same-path-overwritten")
    try:
        write_doc(doc, f1)
        if not case.get("same_path"):
            write_doc(doc2, f2)
    except Exception as e:  # noqa: BLE001
        out.skipped = f"libsbml-rejects-document:{type(e).__name__}"
        return out
    try:
        m1 = sbml.read(f1)
        if case.get("same_path"):
            write_doc(doc2, f2)
        m2 = sbml.read(f2)
    except Exception as e:  # noqa: BLE001
        if in_sympy_piecewise_eval(e):
            out.bad("session:read-raises:RecursionError:raised-in-sympy:Piecewise.eval-does-not-terminate", error=repr(e)[:200])
            return out
        fids = {f_["id"] for d_ in (doc, doc2) for f_ in d_["functions"]}
        if isinstance(e, KeyError) and str(e).strip("'\"") in fids and any("function_listed_before_its_callee" in d_["features"] for d_ in (doc, doc2)):
            out.bad("session:read-raises:KeyError:function-definition-listed-before-its-callee", error=repr(e)[:200])
            return out
        if isinstance(e, CaseTimeout):
            raise
        if raised_inside_sympy_piecewise(e) and not (_has_xor(doc) or _has_xor(doc2)) and (_piecewise_inside_condition(doc) or _piecewise_inside_condition(doc2)):
            out.bad(f"session:read-raises:{type(e).__name__}:raised-in-sympy:Piecewise-with-piecewise-inside-its-condition", error=repr(e)[:200])
            return out
        if raised_inside_sympy_piecewise(e) and (_has_xor(doc) or _has_xor(doc2)):
            out.bad(f"session:read-raises:{type(e).__name__}:raised-in-sympy:Piecewise-with-xor-condition", error=repr(e)[:200])
            return out
        if not (_reference_defined(doc) and _reference_defined(doc2)):
            out.skipped = "reference-undefined"
            return out
        out.bad(f"session:read-raises:{type(e).__name__}", error=repr(e)[:200])
        return out
    out.nontrivial = ["session", case["stems"], key]
    compare(doc, m1, case["amounts"], case["time"], out, "session:first-model-after-second-read:")
    if out.verdicts or out.skipped:
        return out
    compare(doc2, m2, [1.1] * len(doc2["species"]), case["time"], out, "session:second-model:")
    if out.verdicts or out.skipped:
        return out
    # everything that re-reads the first model's function sources must still see the first document:
    # the source text of each of its functions, executed on its own, must compute what the function computes
    import inspect
    import math as _math

    import numpy as _np
    import scipy as _scipy

    vals = m1.get_args()
    for kind, comps in (("reaction", m1.get_raw_reactions()), ("derived", m1.get_raw_derived())):
        for name, c in comps.items():
            try:
                src = inspect.getsource(c.fn)
                ns = {"math": _math, "scipy": _scipy, "np": _np}
                exec(src, ns)  # noqa: S102
                g = ns[c.fn.__name__]
                a = [float(vals[x]) if x != "time" else 0.0 for x in c.args]
                if not close(float(g(*a)), float(c.fn(*a))):
                    out.bad("session:first-model-source-replaced-by-second-document", component=name, kind=kind, stems=case["stems"])
                    return out
            except Exception as e:  # noqa: BLE001
                out.bad(f"session:first-model-source-replaced-by-second-document:{type(e).__name__}", component=name, error=repr(e)[:160], stems=case["stems"])
                return out
    return out


def floors(ctx) -> list[str]:
    c = []
    for k in ["mode:plain", "mode:session", "mode:keywords", "mode:module_names", "function_definition", "rule_defined_stoichiometry", "compartment_size_not_1", "piecewise", "mathml_function", "mathml_function_nested", "mathml_function_of_negative_value", "logical_condition", "abs_of_exponential", "remainder", "function_calls_function", "function_listed_before_its_callee", "local_parameter", "local_parameter_hides_global"]:
        if ctx.classes.get(k, 0) < 5:
            c.append(f"class {k} only {ctx.classes.get(k, 0)}")
    return c
