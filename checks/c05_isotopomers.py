"""C05 — isotopomer expansion preserves base structure, totals and dynamics."""

from __future__ import annotations

import itertools
from collections import Counter

import numpy as np
from hypothesis import strategies as st

from vlib import gen_networks as gn
from vlib.core import Outcome
from vlib.spec import close

ID = "C05"
LEVEL = "exploration"
DESIGN_REF = "DESIGN.md section 5, C05"
RULE = (
    "Generated mass-action base networks (2-4 compounds with 0-3 label positions incl. unlabelled bystanders; influx, "
    "efflux, A->B, A+B->C, C->A+B and 2A->B reactions, optional unlabelled modifier, optional derived quantity over "
    "compounds) x atom-transition maps drawn as permutations of range(max(S,P)) (identity, reversal, non-involutive "
    "cycles, arbitrary; positions beyond the substrates are external) x requested initial label positions x random "
    "positive isotopomer states; plus deliberately short maps. Oracles: (1) an independent enumeration, from the "
    "statement, of the expected multiset of isotopomer-reaction stoichiometries (one per substrate labelling pattern; "
    "product position i carries (substrate labels ++ 1^ext)[map[i]]); (2) summed isotopomer derivatives = base "
    "derivative at the totals, unlabelled compounds and derived quantities equal; (3) initial totals preserved with all "
    "amount in the requested isotopomer; (4) short map -> ValueError. Non-trivial: some mapped reaction has a map that "
    "is neither identity nor an involution, or merges/splits, or has external positions; distinct by (labels, reactions, maps)."
)
ASSUMPTIONS = [
    "every reaction that touches a labelled compound carries a map (the labelled model has no variable for the bare compound otherwise)",
    "modifiers are unlabelled; integer stoichiometries only",
    "tolerance 1e-9 relative",
]
TECHNIQUE = "property-based testing with an independently enumerated structural oracle plus a metamorphic relation (sum of isotopomer derivatives = base derivative at totals)"
LEVEL_TEXT = "Generated networks, label counts and maps; structure compared with an enumeration derived from the statement and dynamics with the base model at totals for random isotopomer states."
LEVEL_NOTE = "Trusted: the base Model's numbers (C01); the enumeration in this file."


def budget(tier: str) -> dict:
    if tier == "quick":
        return {"examples": 1200}
    return {"examples": 1500, "shards": 16, "fuzz_seconds": 45}


@st.composite
def _case(draw):
    net = draw(gn.label_net())
    labelled = [c for c, n in net["labels"].items() if n > 0]
    init = {}
    for c in labelled:
        k = draw(st.sampled_from(["none", "none", "one", "many"]))
        n = net["labels"][c]
        if k == "one":
            init[c] = draw(st.integers(0, n - 1))
        elif k == "many":
            init[c] = sorted(draw(st.lists(st.integers(0, n - 1), min_size=1, max_size=n, unique=True)))
    short = None
    cands = [r["name"] for r in net["reactions"] if r["map"] is not None and sum(net["labels"][c] for c in r["subs"]) >= 1]
    if cands and draw(st.integers(0, 7)) == 0:
        short = draw(st.sampled_from(cands))
    return {"net": net, "initial_labels": init, "short_map": short, "state_seed": draw(st.lists(st.sampled_from([0.1, 0.3, 0.5, 0.8, 1.2, 2.0]), min_size=8, max_size=8))}


def strategy(tier: str):
    return _case()


def _isos(c: str, n: int) -> list[str]:
    if n == 0:
        return [c]
    return [f"{c}__{''.join(b)}" for b in itertools.product("01", repeat=n)]


def expected_reactions(net: dict, r: dict) -> Counter:
    labels = net["labels"]
    subs, prods = r["subs"], r["prods"]
    S = sum(labels[c] for c in subs)
    P = sum(labels[c] for c in prods)
    ext = max(0, P - S)
    exp: Counter = Counter()
    for bits in itertools.product("01", repeat=S):
        s = "".join(bits)
        padded = s + "1" * ext
        prod = "".join(padded[r["map"][i]] for i in range(P))
        sto: dict[str, int] = {}
        k = 0
        for c in subs:
            n = labels[c]
            nm = c if n == 0 else f"{c}__{s[k:k + n]}"
            k += n
            sto[nm] = sto.get(nm, 0) - 1
        k = 0
        for c in prods:
            n = labels[c]
            nm = c if n == 0 else f"{c}__{prod[k:k + n]}"
            k += n
            sto[nm] = sto.get(nm, 0) + 1
        exp[frozenset(sto.items())] += 1
    return exp


def examine(case: dict, ctx) -> Outcome:
    from mxlpy.label_map import LabelMapper

    out = Outcome()
    net = case["net"]
    labels = net["labels"]
    base = gn.build_base(net)
    label_vars = {c: n for c, n in labels.items() if n > 0}
    maps = {r["name"]: list(r["map"]) for r in net["reactions"] if r["map"] is not None}
    has_dimer = any(r["template"] == "dimer" for r in net["reactions"])
    nontriv = False
    for r in net["reactions"]:
        if r["map"] is None:
            continue
        S = sum(labels[c] for c in r["subs"])
        P = sum(labels[c] for c in r["prods"])
        if (len(r["map"]) >= 2 and r["map"] != list(range(len(r["map"]))) and not gn.is_involution(r["map"])) or len(r["subs"]) > 1 or len(r["prods"]) > 1 or P > S:
            nontriv = True
        out.classes.append(f"template:{r['template']}")
        if P > S:
            out.classes.append("external_positions")
        if r["map"] and not gn.is_involution(r["map"]):
            out.classes.append("non_involutive_map")
    if net.get("derived"):
        out.classes.append("derived_quantity")

    # (4) short map
    if case["short_map"] is not None:
        out.classes.append("short_map")
        r = next(x for x in net["reactions"] if x["name"] == case["short_map"])
        S = sum(labels[c] for c in r["subs"])
        bad_maps = dict(maps)
        bad_maps[r["name"]] = maps[r["name"]][: S - 1]
        try:
            LabelMapper(base, label_variables=label_vars, label_maps=bad_maps).build_model()
            out.bad("short-map-accepted", reaction=r["name"], map=bad_maps[r["name"]], substrate_labels=S)
        except ValueError:
            pass
        except Exception as e:  # noqa: BLE001
            out.bad(f"short-map-raises-{type(e).__name__}-not-ValueError", error=repr(e)[:160])
        return out

    try:
        mapper = LabelMapper(base, label_variables=label_vars, label_maps=maps)
        lm = mapper.build_model(initial_labels=case["initial_labels"] or None)
    except Exception as e:  # noqa: BLE001
        out.bad(f"build_model-raises:{type(e).__name__}", error=repr(e)[:200])
        return out
    if nontriv:
        out.nontrivial = [labels, [(r["template"], r["subs"], r["prods"], r["map"]) for r in net["reactions"]]]
        out.sample = {"labels": labels, "reactions": [{k: r[k] for k in ("name", "subs", "prods", "map")} for r in net["reactions"]], "initial_labels": case["initial_labels"]}

    # (1) structure
    raw = lm.get_raw_reactions()
    for r in net["reactions"]:
        if r["map"] is None:
            continue
        got = Counter()
        for name, rx in raw.items():
            if name.startswith(r["name"] + "__"):
                got[frozenset((k, int(v)) for k, v in rx.stoichiometry.items() if v != 0)] += 1
        want = Counter({frozenset((k, v) for k, v in fs if v != 0): n for fs, n in expected_reactions(net, r).items()})
        S = sum(labels[c] for c in r["subs"])
        if sum(got.values()) != 2**S:
            out.bad(f"structure:number-of-isotopomer-reactions:{r['template']}", reaction=r["name"], got=sum(got.values()), want=2**S)
            return out
        if got != want:
            extra = [dict(k) for k in (got - want)][:3]
            missing = [dict(k) for k in (want - got)][:3]
            out.bad(f"structure:stoichiometries-differ:{r['template']}", reaction=r["name"], map=r["map"], unexpected=extra, missing=missing)
            return out

    # (3) initial conditions
    ic = lm.get_initial_conditions()
    for c, n in labels.items():
        isos = _isos(c, n)
        tot = sum(ic[i] for i in isos)
        if not close(tot, net["pools"][c]):
            out.bad("initial:total-not-preserved", compound=c, got=tot, want=net["pools"][c])
            return out
        if n > 0:
            req = case["initial_labels"].get(c)
            pos = [] if req is None else ([req] if isinstance(req, int) else req)
            want_iso = f"{c}__" + "".join("1" if i in pos else "0" for i in range(n))
            if not close(ic[want_iso], net["pools"][c]):
                out.bad("initial:label-not-where-requested", compound=c, requested=req, got={k: v for k, v in ic.items() if k.startswith(c + "__") and v != 0})
                return out

    # (2) dynamics at a random positive isotopomer state
    seed = case["state_seed"]
    state = {}
    k = 0
    for c, n in labels.items():
        for iso in _isos(c, n):
            state[iso] = seed[k % len(seed)] * (1 + 0.1 * (k % 3))
            k += 1
    totals = {c: sum(state[i] for i in _isos(c, n)) for c, n in labels.items()}
    try:
        lr = lm.get_right_hand_side(dict(state), 0.0)
        la = lm.get_args(dict(state), 0.0)
    except Exception as e:  # noqa: BLE001
        out.bad(f"labelled-model-raises:{type(e).__name__}{':dimer' if has_dimer else ''}", error=repr(e)[:200])
        return out
    br = base.get_right_hand_side(dict(totals), 0.0)
    for c, n in labels.items():
        got = float(sum(lr[i] for i in _isos(c, n)))
        want = float(br[c])
        if not close(got, want, abs(want)):
            dim = ":2A->B" if has_dimer else ""
            out.bad(f"dynamics:summed-isotopomer-derivatives-differ{dim}", compound=c, got=got, want=want)
            return out
    if net.get("derived"):
        bd = base.get_args(dict(totals), 0.0)["tot_ab"]
        if not close(float(la["tot_ab"]), float(bd)):
            out.bad("dynamics:derived-quantity-differs", got=float(la["tot_ab"]), want=float(bd))
    return out


def floors(ctx) -> list[str]:
    c = []
    for k in ["non_involutive_map", "external_positions", "template:merge", "template:split", "template:dimer", "short_map", "derived_quantity"]:
        if ctx.classes.get(k, 0) < 5:
            c.append(f"class {k} only {ctx.classes.get(k, 0)}")
    return c


del np
