"""C02 — dependency resolution is order-independent; bad graphs are rejected."""

from __future__ import annotations

import itertools
import re
import signal

from hypothesis import strategies as st

from vlib import gen_models as gm
from vlib.core import Outcome
from vlib.spec import Ref, build, close, decls_of

ID = "C02"
LEVEL = "exploration"
ENGINE = "hypothesis+enumeration"
DESIGN_REF = "DESIGN.md section 5, C02"
RULE = (
    "(i) Exhaustive small graphs: n derived components over base names {k (parameter), x (variable)} plus ghost name zz; "
    "every assignment of argument subsets (quick: n<=2 fully, n=3 with <=2 arguments per node; thorough: n=3 fully and "
    "n=4 with <=2 arguments) x every declaration order. (ii) Hypothesis-sampled larger graphs over derived quantities, "
    "reactions, initial assignments and multi-output surrogates, mutated by self-loops, back edges and missing names. "
    "Oracle: own graph analysis (missing names per component, DFS cycle detection, recursive reference values). "
    "Non-trivial: >=1 component->component edge AND (declaration order is not a topological order OR graph is cyclic / "
    "has a self-loop / misses a name); distinct by (arguments, order) resp. structural hash."
)
ASSUMPTIONS = [
    "graph with both a missing name and a cycle: either error kind accepted (statement does not order them)",
    "termination decided by a watchdog of 20 s per build (normal cost < 1 ms), re-confirmed 3 times",
]
TECHNIQUE = "exhaustive enumeration of small dependency graphs x declaration orders + Hypothesis-sampled mutated larger graphs, judged by an independent graph oracle"
LEVEL_TEXT = "Finite small-graph space enumerated completely (exhaustive for the stated bounds) plus generated-input search on larger mixed graphs; error kind, message content, values and termination are judged by an independent graph analysis."
LEVEL_NOTE = "Trusted: the graph oracle in this file and vlib/spec.py; the watchdog bound stands in for termination."

CASE_TIMEOUT = None  # this check runs its own (nested) watchdog
BASE = ["k", "x"]
GHOST = "zz"


def budget(tier: str) -> dict:
    if tier == "quick":
        return {"examples": 250}
    return {"examples": 1500, "shards": 16}


# ----------------------------------------------------------------------
# oracle


def analyse(nodes: list[tuple[str, list[str], list[str]]], base: set[str]):
    """nodes: (name, required, provided). Returns (missing per node, cyclic?)."""
    provided_by: dict[str, str] = {}
    for name, _, prov in nodes:
        for p in prov:
            provided_by[p] = name
    allav = base | set(provided_by)
    missing = {name: sorted(set(req) - allav) for name, req, _ in nodes if set(req) - allav}
    edges = {name: {provided_by[r] for r in req if r in provided_by} for name, req, _ in nodes}
    color: dict[str, int] = {}
    cyc = False

    def dfs(u: str) -> None:
        nonlocal cyc
        color[u] = 1
        for v in edges[u]:
            c = color.get(v, 0)
            if c == 1:
                cyc = True
            elif c == 0:
                dfs(v)
        color[u] = 2

    for name, _, _ in nodes:
        if color.get(name, 0) == 0:
            dfs(name)
    has_edge = any(edges[n] for n in edges)
    return missing, cyc, has_edge, edges


def order_is_topological(order: list[str], edges: dict[str, set]) -> bool:
    seen: set[str] = set()
    for n in order:
        if not (edges[n] - {n}) <= seen:
            return False
        seen.add(n)
    return True


class _Timeout(Exception):
    pass


def _alarm(signum, frame):  # noqa: ARG001
    raise _Timeout


def with_watchdog(fn, seconds: float = 20.0):
    old = signal.signal(signal.SIGALRM, _alarm)
    signal.setitimer(signal.ITIMER_REAL, seconds)
    try:
        return fn()
    finally:
        signal.setitimer(signal.ITIMER_REAL, 0)
        signal.signal(signal.SIGALRM, old)


def judge_error(out: Outcome, label: str, exc: Exception | None, missing: dict, cyc: bool, result_returned: bool) -> None:
    from mxlpy.model import CircularDependencyError, MissingDependenciesError

    shape = ("missing+" if missing else "") + ("cycle" if cyc else "")
    shape = shape.rstrip("+")
    if result_returned:
        out.bad(f"{label}:numbers-returned-for-bad-graph:{shape}")
        return
    if isinstance(exc, _Timeout):
        out.bad(f"{label}:nontermination:{shape}")
        return
    ok_kinds = []
    if missing:
        ok_kinds.append(MissingDependenciesError)
    if cyc:
        ok_kinds.append(CircularDependencyError)
    if not isinstance(exc, tuple(ok_kinds)):
        out.bad(f"{label}:wrong-error:{shape}:{type(exc).__name__}", error=repr(exc)[:200])
        return
    if isinstance(exc, MissingDependenciesError):
        msg = str(exc)
        # exact content: every component with missing names listed with exactly those names
        listed: dict[str, list[str]] = {}
        for line in msg.splitlines():
            mm = re.match(r"^\s+(\S+): \[(.*)\]\s*$", line)
            if mm:
                listed[mm.group(1)] = sorted(re.findall(r"'([^']*)'", mm.group(2)))
        if listed:
            if listed != {k: sorted(v) for k, v in missing.items()}:
                out.bad(f"{label}:missing-message-inexact", listed=listed, want=missing)
        else:
            toks = set(re.findall(r"'([^']*)'", msg))
            want = set(itertools.chain.from_iterable(missing.values()))
            if toks != want:
                out.bad(f"{label}:missing-message-inexact", tokens=sorted(toks), want=sorted(want))


# ----------------------------------------------------------------------
# (i) exhaustive small graphs


def _varsum(*a):
    return 1.0 + sum(a)


def _small_space(n: int, max_args: int | None):
    names = BASE + [GHOST] + [f"d{i}" for i in range(n)]
    subsets = []
    for r in range(len(names) + 1):
        if max_args is not None and r > max_args:
            break
        subsets.extend(itertools.combinations(names, r))
    return subsets


def enumerate_cases(tier: str, shard: int, nshards: int, ctx):
    plan = [(1, None), (2, None), (3, 2)] if tier == "quick" else [(1, None), (2, None), (3, None), (4, 2)]
    idx = 0
    total = 0
    for n, max_args in plan:
        subsets = _small_space(n, max_args)
        perms = list(itertools.permutations(range(n)))
        for combo in itertools.product(subsets, repeat=n):
            for order in perms:
                if idx % nshards == shard:
                    total += 1
                    yield {"kind": "small", "n": n, "args": [list(c) for c in combo], "order": list(order), "i": idx}
                idx += 1
    ctx.exhaustive = True
    ctx.extra["small_graph_cases"] = total
    ctx.extra["small_graph_plan"] = {f"n={n}": ("all subsets" if ma is None else f"<= {ma} args") for n, ma in plan}


def _examine_small(case: dict, out: Outcome) -> None:
    from mxlpy import Model

    n, args, order = case["n"], case["args"], case["order"]
    nodes = [(f"d{i}", args[i], [f"d{i}"]) for i in range(n)]
    missing, cyc, has_edge, edges = analyse(nodes, set(BASE) | {"time"})
    decl = [f"d{i}" for i in order]
    topo = order_is_topological(decl, edges)
    bad = bool(missing) or cyc
    out.classes = [f"n={n}", "bad" if bad else "good"]
    if cyc:
        out.classes.append("self-loop" if any(k in v for k, v in edges.items()) else "cycle")
    if missing:
        out.classes.append("missing")
    if has_edge and (not topo or bad):
        out.nontrivial = f"{args}|{order}"
        out.sample = {"args": args, "declaration_order": decl}

    def mk():
        m = Model()
        m.add_parameter("k", 2.0)
        m.add_variable("x", 3.0)
        for i in order:
            m.add_derived(f"d{i}", _varsum, args=list(args[i]))
        return m

    observers = ["get_args", "get_initial_conditions", "get_right_hand_side"]
    if bad:
        obs = [observers[case.get("i", 0) % 3]]
    else:
        obs = ["get_args"]
    for ob in obs:
        exc = None
        res = None
        for attempt in range(3):
            try:
                res = with_watchdog(lambda ob=ob: getattr(mk(), ob)())
                exc = None
                break
            except _Timeout as e:
                exc = e
                continue
            except Exception as e:  # noqa: BLE001
                exc = e
                break
        if bad:
            judge_error(out, ob, exc, missing, cyc, res is not None)
        else:
            if exc is not None:
                out.bad(f"{ob}:good-graph-raises:{type(exc).__name__}", error=repr(exc)[:200])
                continue
            # reference values by recursion
            memo = {"k": 2.0, "x": 3.0}

            def val(nm: str) -> float:
                if nm not in memo:
                    memo[nm] = 1.0 + sum(val(a) for a in args[int(nm[1:])])
                return memo[nm]

            for i in range(n):
                if not close(res[f"d{i}"], val(f"d{i}")):
                    out.bad("get_args:good-graph-wrong-value", name=f"d{i}", got=float(res[f"d{i}"]), want=val(f"d{i}"))
                    break


# ----------------------------------------------------------------------
# (ii) sampled larger graphs


def _holder(spec: dict, node: str):
    for k, n, p in spec["decls"]:
        if n == node:
            if k in ("variable", "parameter"):
                return p["ia"]
            return p
    raise KeyError(node)


def _add_arg(h: dict, name: str) -> None:
    h["args"] = [*h["args"], name]
    fd = h["fn"]
    fd["n"] += 1
    if fd["kind"] == "multi":
        for p in fd["parts"]:
            p["n"] += 1
            p["c"] = [*p["c"][:-1], 1.0, p["c"][-1]]
    else:
        fd["c"] = [*fd["c"][:-1], 1.0, fd["c"][-1]]


def _sortable_nodes(spec: dict) -> list[tuple[str, list[str], list[str]]]:
    nodes = []
    for k, n, p in spec["decls"]:
        if k in ("variable", "parameter") and "ia" in p:
            nodes.append((n, list(p["ia"]["args"]), [n]))
        elif k in ("derived", "reaction"):
            nodes.append((n, list(p["args"]), [n]))
        elif k == "surrogate":
            nodes.append((n, list(p["args"]), list(p["outputs"])))
    return nodes


def _base_names(spec: dict) -> set[str]:
    b = {"time"}
    for k, n, p in spec["decls"]:
        if k in ("variable", "parameter") and "ia" not in p:
            b.add(n)
        if k == "data":
            b.add(n)
    return b


@st.composite
def _spec_case(draw) -> dict:
    import copy

    spec = copy.deepcopy(draw(gm.full_spec(max_nodes=10, ia_weight=2, allow_readouts=False)))
    nodes = _sortable_nodes(spec)
    muts = []
    nm = draw(st.sampled_from([0, 1, 1, 2, 2, 3]))
    for _ in range(nm):
        kind = draw(st.sampled_from(["self_loop", "back_edge", "back_edge", "missing", "missing", "surrogate_name"]))
        name, _, prov = draw(st.sampled_from(nodes))
        h = _holder(spec, name)
        if kind == "self_loop":
            _add_arg(h, draw(st.sampled_from(prov)))
        elif kind == "back_edge":
            other = draw(st.sampled_from(nodes))
            _add_arg(h, draw(st.sampled_from(other[2])))
        elif kind == "surrogate_name":
            # the registered name of a surrogate is in the name space but is not a value anything provides
            sur = [n for k_, n, _ in spec["decls"] if k_ == "surrogate"]
            if sur:
                _add_arg(h, draw(st.sampled_from(sur)))
            else:
                _add_arg(h, "zz0")
        else:
            for j in range(draw(st.integers(1, 2))):
                _add_arg(h, f"zz{j}")
        muts.append([kind, name])
    return {"kind": "spec", "spec": spec, "mutations": muts}


def strategy(tier: str):
    return _spec_case()


def _examine_spec(case: dict, out: Outcome) -> None:
    spec = case["spec"]
    nodes = _sortable_nodes(spec)
    missing, cyc, has_edge, edges = analyse(nodes, _base_names(spec))
    # declaration order as MxlPy sees it: assignments (variables then parameters), derived, reactions, surrogates
    decl = (
        [n for n, p in decls_of(spec, "variable") if "ia" in p]
        + [n for n, p in decls_of(spec, "parameter") if "ia" in p]
        + [n for n, _ in decls_of(spec, "derived")]
        + [n for n, _ in decls_of(spec, "reaction")]
        + [n for n, _ in decls_of(spec, "surrogate")]
    )
    topo = order_is_topological(decl, edges)
    bad = bool(missing) or cyc
    out.classes = ["sampled", "bad" if bad else "good", f"mutations={len(case['mutations'])}"]
    if cyc:
        out.classes.append("self-loop" if any(k in v for k, v in edges.items()) else "cycle")
    if missing:
        out.classes.append("missing")
    kinds = {k for k, _, p in spec["decls"]}
    if "surrogate" in kinds:
        out.classes.append("multi-output-provider")
    if has_edge and (not topo or bad):
        out.nontrivial = gm.structure_key(spec)

    for ob in ("get_args", "get_initial_conditions", "get_right_hand_side"):
        exc = None
        res = None
        for attempt in range(3):
            try:
                res = with_watchdog(lambda ob=ob: getattr(build(spec), ob)())
                exc = None
                break
            except _Timeout as e:
                exc = e
                continue
            except Exception as e:  # noqa: BLE001
                exc = e
                break
        if bad:
            judge_error(out, ob, exc, missing, cyc, res is not None)
        else:
            if exc is not None:
                out.bad(f"{ob}:good-graph-raises:{type(exc).__name__}", error=repr(exc)[:200])
                continue
            ref = Ref(spec)
            ini = ref.initial()
            if ob == "get_args":
                for nme in res.index:
                    if nme != "time" and not close(res[nme], ini[nme]):
                        out.bad("get_args:good-graph-wrong-value", name=nme, got=float(res[nme]), want=ini[nme])
                        break
            elif ob == "get_initial_conditions":
                for nme, v in res.items():
                    if not close(v, ini[nme]):
                        out.bad("get_initial_conditions:good-graph-wrong-value", name=nme, got=v, want=ini[nme])
                        break
            else:
                ic = ref.initial_conditions()
                dx, sc = ref.rhs(ic, 0.0)
                for nme in dx:
                    if not close(res[nme], dx[nme], sc[nme]):
                        out.bad("get_right_hand_side:good-graph-wrong-value", name=nme, got=float(res[nme]), want=dx[nme])
                        break


def examine(case: dict, ctx) -> Outcome:
    out = Outcome()
    if case["kind"] == "small":
        _examine_small(case, out)
    else:
        _examine_spec(case, out)
    return out


def floors(ctx) -> list[str]:
    c = []
    for k in ["sampled", "cycle", "self-loop", "missing", "good", "multi-output-provider"]:
        if ctx.classes.get(k, 0) < 10:
            c.append(f"class {k} only {ctx.classes.get(k, 0)}")
    return c
