"""C19 — result caching is transparent and survives interruption (fault injection)."""

from __future__ import annotations

import os
import pickle
import shutil
import signal
import sys
import traceback

import numpy as np
from hypothesis import strategies as st

from vlib import cachefns, linear
from vlib.core import Outcome

ID = "C19"
LEVEL = "fault_enumeration"
ENGINE = "hypothesis+enumeration"
DESIGN_REF = "DESIGN.md section 5, C19"
CASE_TIMEOUT = 120.0
RULE = (
    "Fault injection by process death. The caching run (the real parallelise/_load_or_run/save path, or a real "
    "scan.time_course with cache=) executes in a forked child whose file-size limit (RLIMIT_FSIZE, SIGXFSZ fatal) makes "
    "the kernel kill it after exactly b bytes of the result file of key p have been written (keys before p are "
    "pre-populated by a complete run over the prefix); further crash points: before the first open (b=0 at p=0), after "
    "the close of key p (death at the start of key p+1), and death of a pool worker in parallel mode. A fresh process "
    "then reruns with the same cache and must complete with the results of a cache-free run; a complete second run must "
    "not recompute (marker files count computations). Enumerated: every byte offset of a small payload x first/middle/"
    "last key, sequentially (exhaustive); Hypothesis-sampled: key sets (ints / strings, 1-8 keys), payload kinds "
    "(floats, bytes up to 64 KiB, numpy arrays, Simulation objects from a real scan), offsets, sequential / 2-worker "
    "parallel. Non-trivial: the crash leaves a partially written or missing file for some key (0 < b < len, or death "
    "between keys); distinct by (payload kind, size, keys, p, b, mode)."
)
ASSUMPTIONS = [
    "process death only (a kill at any instant); power loss / unsynced pages are not modelled",
    "keys whose str() collide or contain path separators are outside the generated domain",
    "the number of recomputations after a crash is recorded, not judged (the statement only requires correct results)",
]
TECHNIQUE = "fault injection: kernel-enforced kill at every byte offset of a result-file write (RLIMIT_FSIZE) in a forked child, rerun in a fresh process, compared with a cache-free run; exhaustive over offsets for small payloads, Hypothesis-sampled beyond"
LEVEL_TEXT = "Every byte offset of the write of a small result file at first/middle/last key is enumerated exhaustively (sequential mode), plus sampled key sets, payload sizes up to several pickle frames, real scan results and parallel pools; the oracle is the cache-free result and a recomputation counter."
LEVEL_NOTE = "Trusted: the kernel's RLIMIT_FSIZE semantics (write stops at exactly b bytes, then SIGXFSZ), os.fork; pebble for pools."

SMALL_KIND, SMALL_SIZE = "floats", 6


def budget(tier: str) -> dict:
    if tier == "quick":
        return {"examples": 40}
    return {"examples": 160, "shards": 16}


# ----------------------------------------------------------------------
# child-process plumbing


def _run_parallelise(keys, kind, size, cache_dir, marker_dir, mode, die_at_key=None):
    from pathlib import Path

    from mxlpy.parallel import Cache, parallelise

    inputs = [(k, (k, kind, size, marker_dir, die_at_key)) for k in keys]
    cache = None if cache_dir is None else Cache(tmp_dir=Path(cache_dir))
    return parallelise(cachefns.work, inputs, cache=cache, parallel=(mode != "seq"), max_workers=2, disable_tqdm=True)


def _run_scan(lin, table, tps, cache_dir, mode):
    from pathlib import Path

    import pandas as pd
    from mxlpy import scan
    from mxlpy.parallel import Cache

    m = linear.build(lin)
    cache = None if cache_dir is None else Cache(tmp_dir=Path(cache_dir))
    sc = scan.time_course(m, to_scan=pd.DataFrame(table), time_points=np.array(tps), cache=cache, parallel=(mode != "seq"))
    return {"variables": sc.variables, "fluxes": sc.fluxes}


def _in_child(fn, out_file: str | None, fsize_limit: int | None) -> tuple[int, int]:
    """Run fn() in a forked child. Returns (exit code or -signal, pid)."""
    sys.stdout.flush()
    sys.stderr.flush()
    pid = os.fork()
    if pid == 0:
        code = 0
        try:
            if fsize_limit is not None:
                import resource

                signal.signal(signal.SIGXFSZ, signal.SIG_DFL)
                resource.setrlimit(resource.RLIMIT_FSIZE, (fsize_limit, fsize_limit))
            res = fn()
            if out_file is not None:
                with open(out_file, "wb") as fp:
                    pickle.dump(("ok", res), fp)
        except BaseException as e:  # noqa: BLE001
            code = 3
            try:
                if out_file is not None:
                    with open(out_file, "wb") as fp:
                        pickle.dump(("raise", type(e).__name__, "".join(traceback.format_exception_only(type(e), e))[:300]), fp)
            except BaseException:  # noqa: BLE001
                pass
        finally:
            os._exit(code)
    _, status = os.waitpid(pid, 0)
    if os.WIFSIGNALED(status):
        return -os.WTERMSIG(status), pid
    return os.WEXITSTATUS(status), pid


def _load(out_file):
    with open(out_file, "rb") as fp:
        return pickle.load(fp)


def _same(a, b) -> bool:
    import pandas as pd

    if isinstance(a, pd.DataFrame):
        return isinstance(b, pd.DataFrame) and a.shape == b.shape and list(a.columns) == list(b.columns) and a.index.equals(b.index) and np.allclose(a.to_numpy(float), b.to_numpy(float), rtol=0, atol=0, equal_nan=True)
    if isinstance(a, np.ndarray):
        return isinstance(b, np.ndarray) and a.shape == b.shape and np.array_equal(a, b)
    if isinstance(a, dict):
        return isinstance(b, dict) and a.keys() == b.keys() and all(_same(a[k], b[k]) for k in a)
    if isinstance(a, (list, tuple)):
        return isinstance(b, (list, tuple)) and len(a) == len(b) and all(_same(x, y) for x, y in zip(a, b))
    return a == b


def _nmarkers(marker_dir) -> int:
    return len(os.listdir(marker_dir))


# ----------------------------------------------------------------------
# cases


def _small_len() -> int:
    return len(pickle.dumps(cachefns.payload(SMALL_KIND, "k1", SMALL_SIZE)))


def enumerate_cases(tier: str, shard: int, nshards: int, ctx):
    keys = ["k0", "k1", "k2", "k3", "k4"]
    L = _small_len()
    idx = 0
    n = 0
    for p in (0, 2, 4):
        for b in range(0, L):
            if idx % nshards == shard:
                n += 1
                yield {"type": "map", "keys": keys, "kind": SMALL_KIND, "size": SMALL_SIZE, "p": p, "b": b, "mode": "seq", "crash": "write"}
            idx += 1
        for crash in ("after_close",):
            if idx % nshards == shard:
                n += 1
                yield {"type": "map", "keys": keys, "kind": SMALL_KIND, "size": SMALL_SIZE, "p": p, "b": None, "mode": "seq", "crash": crash}
            idx += 1
    ctx.exhaustive = True
    ctx.extra["byte_sweep"] = {"payload_bytes": L, "key_positions": [0, 2, 4], "scenarios": n, "note": "every offset 0 <= b < len, sequential"}


@st.composite
def _case(draw):
    typ = draw(st.sampled_from(["map"] * 5 + ["scan"]))
    mode = draw(st.sampled_from(["seq", "seq", "par"]))
    if typ == "scan":
        lin = draw(linear.lin_strategy(max_n=2))
        nrows = draw(st.integers(2, 4))
        pn = linear.param_names(lin)
        col = draw(st.sampled_from(pn))
        table = {col: [draw(st.sampled_from([0.1, 0.25, 0.5, 1.0, 2.0, 1.5, 0.75])) for _ in range(nrows)]}
        return {"type": "scan", "lin": lin, "table": table, "tps": [0.0, 1.0, 2.5], "p": draw(st.integers(0, nrows - 1)), "frac": draw(st.integers(0, 1000)), "mode": mode, "crash": draw(st.sampled_from(["write", "write", "after_close"]))}
    nkeys = draw(st.integers(1, 8))
    if draw(st.booleans()):
        keys = draw(st.lists(st.integers(0, 50), min_size=nkeys, max_size=nkeys, unique=True))
    else:
        keys = [f"key_{c}" for c in draw(st.lists(st.sampled_from("abcdefghijkl"), min_size=nkeys, max_size=nkeys, unique=True))]
    kind = draw(st.sampled_from(["floats", "bytes", "bytes", "array"]))
    size = draw(st.sampled_from([1, 10, 100, 1000, 9000, 70000])) if kind == "bytes" else draw(st.sampled_from([1, 5, 50, 500, 9000]))
    return {"type": "map", "keys": keys, "kind": kind, "size": size, "p": draw(st.integers(0, nkeys - 1)), "frac": draw(st.integers(0, 1000)), "mode": mode, "crash": draw(st.sampled_from(["write", "write", "write", "after_close"]))}


def strategy(tier: str):
    return _case()


# ----------------------------------------------------------------------


def examine(case: dict, ctx) -> Outcome:
    out = Outcome()
    work = ctx.work / "c19"
    if work.exists():
        shutil.rmtree(work, ignore_errors=True)
    cache_dir = work / "cache"
    marker_dir = work / "markers"
    for d in (cache_dir, marker_dir):
        d.mkdir(parents=True)
    res_file = str(work / "res.pkl")
    mode = case["mode"]
    typ = case["type"]

    if typ == "map":
        keys = case["keys"]
        kind, size = case["kind"], case["size"]
        L = len(pickle.dumps(cachefns.payload(kind, keys[case["p"]], size)))

        def run(cdir, upto=None, die=None):
            ks = keys if upto is None else keys[:upto]
            return _run_parallelise(ks, kind, size, None if cdir is None else str(cdir), str(marker_dir), mode, die)

        nitems = len(keys)
    else:
        import pandas as pd

        table = case["table"]
        nitems = len(next(iter(table.values())))

        def run(cdir, upto=None, die=None):
            t = table if upto is None else {k: v[:upto] for k, v in table.items()}
            return _run_scan(case["lin"], t, case["tps"], None if cdir is None else str(cdir), mode)

        L = None
        del pd
    p = case["p"]
    tag = f"{typ}:{mode}"

    # 0. reference without cache
    rc, _ = _in_child(lambda: run(None), res_file, None)
    if rc != 0:
        out.skipped = "reference-run-failed"
        return out
    expected = _load(res_file)[1]
    shutil.rmtree(marker_dir)
    marker_dir.mkdir()

    # 1. pre-populate keys before p with a complete caching run over the prefix
    if p > 0:
        rc, _ = _in_child(lambda: run(cache_dir, upto=p), None, None)
        if rc != 0:
            out.bad(f"{tag}:caching-run-over-prefix-failed", rc=rc)
            return out
    files_before = sorted(os.listdir(cache_dir))
    if typ == "scan":
        # learn the size of one result file to place the crash offset
        sizes = [os.path.getsize(cache_dir / f) for f in files_before]
        if not sizes:
            probe = work / "probe"
            probe.mkdir()
            _in_child(lambda: _run_scan(case["lin"], {k: v[:1] for k, v in case["table"].items()}, case["tps"], str(probe), "seq"), None, None)
            sizes = [os.path.getsize(probe / f) for f in os.listdir(probe)]
            shutil.rmtree(marker_dir)
            marker_dir.mkdir()
        L = max(sizes) if sizes else 1000

    # 2. the interrupted run
    crash = case["crash"]
    if crash == "write":
        b = case["b"] if case.get("b") is not None else min(L - 1, (case["frac"] * L) // 1001)
        rc, _ = _in_child(lambda: run(cache_dir), None, b)
        cls = "b=0" if b == 0 else ("frame-boundary" if b in (1, 2, 11, L - 1) else "mid-file")
        out.classes = [f"type:{typ}", f"mode:{mode}", "crash:write", cls, f"p={'first' if p == 0 else ('last' if p == nitems - 1 else 'middle')}"]
        nontrivial = True
    else:
        # die at the start of key p (i.e. after the close of key p-1's file)
        if typ == "map":
            die = keys[p]
            rc, _ = _in_child(lambda: run(cache_dir, die=die), None, None)
        else:
            # scans: stop after the prefix (equivalent observable state: complete files for rows < p)
            rc = -9
        b = None
        out.classes = [f"type:{typ}", f"mode:{mode}", "crash:after_close", f"p={'first' if p == 0 else ('last' if p == nitems - 1 else 'middle')}"]
        nontrivial = True
    files_after = {f: os.path.getsize(cache_dir / f) for f in sorted(os.listdir(cache_dir))}
    out.classes.append("interrupted-run-died" if rc != 0 else "interrupted-run-survived")
    if crash == "write" and rc == 0 and typ == "map" and L > (b or 0):
        # the limit did not bite (e.g. implementation wrote nothing that large) - not a crash scenario
        out.classes.append("limit-did-not-bite")

    # 3. rerun in a fresh process with the same cache
    n0 = _nmarkers(marker_dir)
    rc2, _ = _in_child(lambda: run(cache_dir), res_file, None)
    detail = {"p": p, "b": b, "file_len": L, "files_after_crash": files_after, "crash_exit": rc}
    if rc2 != 0:
        err = _load(res_file) if os.path.exists(res_file) else ("died", rc2)
        out.bad(f"{tag}:rerun-after-{crash}-crash-fails:{err[1] if err[0] == 'raise' else 'died'}", **detail, error=str(err)[:300])
    else:
        got = _load(res_file)[1]
        if not _same(got, expected):
            out.bad(f"{tag}:rerun-after-{crash}-crash-wrong-result", **detail)
        else:
            out.extra_recomputed = _nmarkers(marker_dir) - n0
            # 4. a complete second run: same results, nothing recomputed
            n1 = _nmarkers(marker_dir)
            rc3, _ = _in_child(lambda: run(cache_dir), res_file, None)
            if rc3 != 0:
                out.bad(f"{tag}:second-complete-run-fails", **detail)
            else:
                got3 = _load(res_file)[1]
                if not _same(got3, expected):
                    out.bad(f"{tag}:cached-results-differ-from-uncached", **detail)
                if typ == "map" and _nmarkers(marker_dir) != n1:
                    out.bad(f"{tag}:second-run-recomputes", recomputed=_nmarkers(marker_dir) - n1, **detail)
    if nontrivial:
        out.nontrivial = [typ, mode, case.get("kind"), case.get("size"), case.get("keys") or case.get("table"), p, b, crash]
    out.sample = {k: v for k, v in case.items() if k != "lin"} | {"file_len": L, "offset": b}
    shutil.rmtree(work, ignore_errors=True)
    return out


def floors(ctx) -> list[str]:
    c = []
    for k in ["type:map", "mode:seq", "crash:write", "mid-file", "interrupted-run-died"]:
        if ctx.classes.get(k, 0) < 5:
            c.append(f"class {k} only {ctx.classes.get(k, 0)}")
    return c
