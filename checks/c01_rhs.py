"""C01 — derivatives equal stoichiometry x rates over fully resolved values."""

from __future__ import annotations

import itertools

from hypothesis import strategies as st

from vlib import gen_models as gm
from vlib.core import Outcome
from vlib.spec import Ref, build, close, var_names

ID = "C01"
LEVEL = "exploration"
DESIGN_REF = "DESIGN.md section 5, C01"
RULE = (
    "Hypothesis-generated well-formed model specs (parameters, variables, derived chains, reactions with "
    "numeric/named/computed coefficients, multi-output mock surrogates, data, time, initial assignments; declaration "
    "order shuffled) x state x time x 1-4 row time course; every entry point compared with an independent "
    "demand-driven recursive evaluator. Non-trivial: spec has at least one of derived-on-flux, state-dependent "
    "coefficient, multi-output surrogate feeding a derived quantity, chain depth>=2, untouched variable, time "
    "dependence; distinct by structural hash of the spec with numbers abstracted."
)
ASSUMPTIONS = [
    "generated functions are total polynomials/rationals; MxlPy only calls them",
    "comparison tolerance 1e-9*(1+scale) (only association order of sums can differ)",
]

FLAGS = [
    "include_time",
    "include_variables",
    "include_parameters",
    "include_derived_parameters",
    "include_derived_variables",
    "include_reactions",
    "include_surrogate_variables",
    "include_surrogate_fluxes",
    "include_readouts",
]


def budget(tier: str) -> dict:
    if tier == "quick":
        return {"examples": 500}
    return {"examples": 4000, "shards": 16}


@st.composite
def _case(draw) -> dict:
    spec = draw(gm.full_spec())
    state = draw(gm.state_for(spec))
    t = draw(gm.time_value)
    nrows = draw(st.integers(1, 4))
    times = sorted(set(draw(st.lists(gm.time_value, min_size=nrows, max_size=nrows))))
    tc = [[tt, draw(gm.state_for(spec))] for tt in times]
    flags = {f: draw(st.booleans()) for f in FLAGS}
    from vlib.spec import decls_of

    plain = [n for n, p in decls_of(spec, "parameter") if "ia" not in p]
    updates = {n: draw(gm.value) for n in plain if draw(st.integers(0, 2)) == 0}
    return {"spec": spec, "state": state, "time": t, "tc": tc, "flags": flags, "param_updates": updates}


def strategy(tier: str):
    return _case()


NONTRIVIAL = {
    "derived_on_flux",
    "state_dependent_coefficient",
    "derived_on_surrogate_output",
    "chain_depth>=2",
    "untouched_variable",
    "time_dependence",
}


def _expected_names(ref: Ref, spec: dict, flags: dict) -> list[str]:
    from vlib.spec import decls_of

    dpar = ref.derived_parameters()
    names: list[str] = []
    if flags.get("include_time"):
        names.append("time")
    if flags["include_variables"]:
        names += var_names(spec)
    if flags["include_parameters"]:
        names += [n for n, _ in decls_of(spec, "parameter")]
    if flags["include_derived_variables"]:
        names += [n for n, _ in decls_of(spec, "derived") if n not in dpar]
    if flags["include_derived_parameters"]:
        names += [n for n, _ in decls_of(spec, "derived") if n in dpar]
    if flags["include_reactions"]:
        names += [n for n, _ in decls_of(spec, "reaction")]
    if flags["include_surrogate_variables"]:
        for _, p in decls_of(spec, "surrogate"):
            names += [o for o in p["outputs"] if o not in p["stoich"]]
    if flags["include_surrogate_fluxes"]:
        for _, p in decls_of(spec, "surrogate"):
            names += list(p["stoich"])
    if flags["include_readouts"]:
        names += [n for n, _ in decls_of(spec, "readout")]
    return names


def examine(case: dict, ctx) -> Outcome:
    import pandas as pd

    out = Outcome()
    spec = case["spec"]
    feats = gm.features(spec)
    out.classes = sorted(feats)
    if feats & NONTRIVIAL:
        out.nontrivial = gm.structure_key(spec)
    ref = Ref(spec)
    vnames = var_names(spec)
    state, t = case["state"], case["time"]

    try:
        m = build(spec)
    except Exception as e:  # noqa: BLE001
        out.bad("build-raises:" + type(e).__name__, error=repr(e))
        return out

    exp_all = ref.evaluate(state, t, readouts=True)
    exp_rhs, scale = ref.rhs(state, t)
    tcls = "time_in_coefficient" if "time_in_coefficient" in feats else "plain"

    def guard(label: str, fn):
        try:
            return fn()
        except Exception as e:  # noqa: BLE001
            out.bad(f"raises:{label}:{type(e).__name__}:{tcls}", error=repr(e)[:300])
            return None

    # 1 positional call
    y = [state[v] for v in vnames]
    r = guard("call", lambda: m(t, y))
    if r is not None:
        if len(r) != len(vnames):
            out.bad("call:length", got=len(r), want=len(vnames))
        else:
            for v, got in zip(vnames, r):
                if not close(got, exp_rhs[v], scale[v]):
                    out.bad("call:value", var=v, got=got, want=exp_rhs[v])
                    break
    # 2 named rhs
    r2 = guard("get_right_hand_side", lambda: m.get_right_hand_side(dict(state), t))
    if r2 is not None:
        if list(r2.index) != vnames:
            out.bad("rhs:order", got=list(r2.index), want=vnames)
        else:
            for v in vnames:
                if not close(r2[v], exp_rhs[v], scale[v]):
                    out.bad("rhs:value", var=v, got=float(r2[v]), want=exp_rhs[v])
                    break
    # 3 fluxes
    fl = guard("get_fluxes", lambda: m.get_fluxes(dict(state), t))
    fnames = ref.flux_names()
    if fl is not None:
        if sorted(fl.index) != sorted(fnames):
            out.bad("fluxes:names", got=list(fl.index), want=fnames)
        else:
            for f in fnames:
                if not close(fl[f], exp_all[f]):
                    out.bad("fluxes:value", flux=f, got=float(fl[f]), want=exp_all[f])
                    break
    # 4 full argument table, all flags on, and a drawn flag combination
    allon = dict.fromkeys(FLAGS, True)
    for label, flags in (("all", allon), ("drawn", case["flags"])):
        a = guard(f"get_args[{label}]", lambda flags=flags: m.get_args(dict(state), t, **flags))
        if a is None:
            continue
        want = _expected_names(ref, spec, flags)
        if list(a.index) != want:
            if sorted(a.index) != sorted(want):
                out.bad(f"args[{label}]:names", got=list(a.index), want=want)
                continue
        for n in want:
            if not close(a[n], exp_all[n]):
                out.bad(f"args[{label}]:value", name=n, got=float(a[n]), want=exp_all[n])
                break
    # 5 stoichiometries: N(state) v = dx/dt
    N = guard("get_stoichiometries", lambda: m.get_stoichiometries(dict(state), t))
    if N is not None and fl is not None:
        st_exp = ref.stoich_terms(state, t)
        for v in vnames:
            if v in N.index:
                tot = 0.0
                for f in N.columns:
                    got_c = float(N.loc[v, f])
                    want_c = st_exp.get(v, {}).get(f, 0.0)
                    if not close(got_c, want_c):
                        out.bad("stoich:coefficient", var=v, flux=f, got=got_c, want=want_c)
                        break
                    tot += got_c * float(fl[f])
                else:
                    if not close(tot, exp_rhs[v], scale[v]):
                        out.bad("stoich:Nv", var=v, got=tot, want=exp_rhs[v])
            elif st_exp.get(v):
                out.bad("stoich:missing-row", var=v)
    # 6 time-course forms
    tc = case["tc"]
    df = pd.DataFrame([s for _, s in tc], index=[tt for tt, _ in tc], columns=vnames, dtype=float)
    exp_rows = [ref.evaluate(s, tt, readouts=True) for tt, s in tc]
    exp_rhs_rows = [ref.rhs(s, tt) for tt, s in tc]
    atc = guard("get_args_time_course", lambda: m.get_args_time_course(df, include_readouts=True))
    if atc is not None:
        tflags = dict(allon)
        tflags["include_time"] = False
        want = _expected_names(ref, spec, tflags)
        if sorted(atc.columns) != sorted(want) or list(atc.index) != list(df.index):
            out.bad("args_tc:shape", cols=list(atc.columns), want=want, index=list(atc.index))
        else:
            done = False
            for i, (tt, _) in enumerate(tc):
                for n in want:
                    if not close(atc.iloc[i][n], exp_rows[i][n]):
                        out.bad("args_tc:value", name=n, row=i, got=float(atc.iloc[i][n]), want=exp_rows[i][n])
                        done = True
                        break
                if done:
                    break
    ftc = guard("get_fluxes_time_course", lambda: m.get_fluxes_time_course(df))
    if ftc is not None:
        if sorted(ftc.columns) != sorted(fnames) or list(ftc.index) != list(df.index):
            out.bad("fluxes_tc:shape", cols=list(ftc.columns), want=fnames)
        else:
            done = False
            for i in range(len(tc)):
                for f in fnames:
                    if not close(ftc.iloc[i][f], exp_rows[i][f]):
                        out.bad("fluxes_tc:value", flux=f, row=i)
                        done = True
                        break
                if done:
                    break
    if atc is not None:
        # the documented input of the time-course rhs is the full argument table
        rtc = guard("get_right_hand_side_time_course", lambda: m.get_right_hand_side_time_course(atc))
        if rtc is not None:
            if list(rtc.columns) != vnames or list(rtc.index) != list(df.index):
                out.bad("rhs_tc:shape", cols=list(rtc.columns), index=list(rtc.index))
            else:
                done = False
                for i in range(len(tc)):
                    dx, sc = exp_rhs_rows[i]
                    for v in vnames:
                        if not close(rtc.iloc[i][v], dx[v], sc[v]):
                            out.bad(f"rhs_tc:value:{tcls}", var=v, row=i, got=float(rtc.iloc[i][v]), want=dx[v])
                            done = True
                            break
                    if done:
                        break
    # 7 the same model after its parameter values were changed through the public API (the tables
    #   built for the first queries must not survive): all forms again, against a reference of the new values
    upd = case.get("param_updates") or {}
    if upd:
        import copy

        spec2 = copy.deepcopy(spec)
        for d in spec2["decls"]:
            if d[0] == "parameter" and d[1] in upd:
                d[2]["value"] = upd[d[1]]
        ref2 = Ref(spec2)
        out.classes.append("parameters_updated_after_queries")
        try:
            m.update_parameters(dict(upd))
        except Exception as e:  # noqa: BLE001
            out.bad(f"raises:update_parameters:{type(e).__name__}", error=repr(e)[:200])
            return out
        exp2, scale2 = ref2.rhs(state, t)
        expa2 = ref2.evaluate(state, t)
        r = guard("call-after-update", lambda: m(t, y))
        if r is not None:
            for v, got in zip(vnames, r):
                if not close(got, exp2[v], scale2[v]):
                    out.bad("after-parameter-update:call:value", var=v, got=got, want=exp2[v], updated=sorted(upd))
                    break
        a = guard("get_args-after-update", lambda: m.get_args(dict(state), t))
        if a is not None:
            for n in a.index:
                if n != "time" and not close(a[n], expa2[n]):
                    out.bad("after-parameter-update:args:value", name=n, got=float(a[n]), want=expa2[n], updated=sorted(upd))
                    break
        N2 = guard("get_stoichiometries-after-update", lambda: m.get_stoichiometries(dict(state), t))
        if N2 is not None:
            st2 = ref2.stoich_terms(state, t)
            done = False
            for v in N2.index:
                for f in N2.columns:
                    if not close(float(N2.loc[v, f]), st2.get(v, {}).get(f, 0.0)):
                        out.bad("after-parameter-update:stoich:coefficient", var=v, flux=f, got=float(N2.loc[v, f]), want=st2.get(v, {}).get(f, 0.0))
                        done = True
                        break
                if done:
                    break
    return out


def floors(ctx) -> list[str]:
    c = []
    need = ["derived_on_flux", "state_dependent_coefficient", "multi_output_surrogate", "untouched_variable", "chain_depth>=2", "time_dependence", "initial_assignment_parameter", "initial_assignment_variable"]
    for k in need:
        if ctx.classes.get(k, 0) < max(5, ctx.evaluations // 100):
            c.append(f"class {k} only {ctx.classes.get(k, 0)}/{ctx.evaluations}")
    return c


del itertools

TECHNIQUE = "property-based differential testing (Hypothesis-generated models vs independent recursive reference evaluator) + cross-entry-point metamorphic agreement"
LEVEL_TEXT = (
    "Generated-input search: every entry point of the model agrees with an independent reference evaluator on "
    "hundreds (quick) / tens of thousands (thorough) of structurally distinct generated models and states. "
    "Exploration is the right level: the quantifier is over all models x states, which cannot be enumerated."
)
LEVEL_NOTE = "Trusted: the reference evaluator (vlib/spec.py), Hypothesis, float arithmetic of CPython; generated functions are polynomials/rationals only."
