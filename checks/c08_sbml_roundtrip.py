"""C08 — SBML export then import reproduces the model, or export fails."""

from __future__ import annotations

import importlib
import sys
from pathlib import Path

import numpy as np
from hypothesis import strategies as st

from vlib.core import Outcome
from vlib.spec import build, close

ID = "C08"
LEVEL = "exploration"
DESIGN_REF = "DESIGN.md section 5, C08"
CASE_TIMEOUT = 60.0
RULE = (
    "Generated surrogate-free models whose rate laws / derived quantities / coefficient functions / initial assignments "
    "are generated single-expression Python functions (arithmetic, unary minus, powers, conditional expressions over "
    "comparisons and chained comparisons, math / numpy functions that have MathML counterparts, math.pi / math.e, "
    "literals) written to a module; integer, fractional and computed coefficients of either sign; initial assignments on "
    "variables and parameters; derived parameters and derived variables; names from a pool incl. names that need "
    "escaping; plus a class of constructs beyond the exporter (%, and/or/not, multi-statement bodies, calls to helper "
    "functions, unary plus, math functions without a table entry). Oracle: the original model's own numbers (C01) vs "
    "read(write(m)) at a random positive state, restricted to the original names; listed constructs must round-trip, "
    "others must make write raise or round-trip. Non-trivial: the model uses >=1 of {conditional, chained comparison, "
    "math function, computed coefficient, initial assignment, fractional coefficient, name needing escaping}; distinct "
    "by function sources + structure."
)
ASSUMPTIONS = [
    "the re-read model may contain extra components (compartment parameter, helper quantities); only the original names are compared",
    "states and parameter values are positive, sqrt/log arguments are 1+e^2",
    "tolerance 1e-9 relative",
]
TECHNIQUE = "property-based round-trip testing (write -> read) with generated expression grammars, compared numerically with the original model at generated states"
LEVEL_TEXT = "Generated models and single-expression rate laws are exported, re-imported and compared with the original at random states; constructs outside the exporter's table must make the export raise."
LEVEL_NOTE = "Trusted: libsbml and pysbml as carriers; the original Model's numbers (C01)."

MATH1 = [
    "math.sqrt", "np.sqrt", "math.log", "np.log", "math.log10", "np.log10", "math.sin", "np.sin", "np.cos", "math.cos", "math.tan", "np.tan",
    "math.tanh", "np.tanh", "np.sinh", "math.cosh", "np.abs", "abs", "math.ceil", "np.ceil",
    "np.arcsin", "np.arccos", "np.arctan", "np.arcsinh", "np.arccosh", "np.arctanh", "math.asin", "math.acos", "math.atan", "math.asinh", "math.acosh", "math.atanh",
]  # fmt: skip
# names the exporter lists (its UNARY / BINARY / NARY tables, looked up by attribute name under math / np / numpy or as a
# bare call); anything else may be refused
TABLE1 = {"sqrt", "abs", "ceil", "sin", "cos", "tan", "arcsin", "arccos", "arctan", "sinh", "cosh", "tanh", "arcsinh", "arccosh", "arctanh", "log", "log10"}
FORMS2_LISTED = ["np.power({a}, 2.0)", "np.power(1.0 + ({a}) ** 2, {b})", "max({a}, {b})", "min({a}, {b})", "max({a}, {b}, 0.25)", "min({a}, 1.5, {b})", "np.remainder({a}, 2.0)", "math.log(1.0 + ({a}) ** 2, 3.0)"]
FORMS2 = [*FORMS2_LISTED, "np.maximum({a}, {b})", "math.pow(1.0 + ({a}) ** 2, 0.5)"]
PLAIN_NAMES = {"parameter": ["k1", "kf", "vmax", "Km", "p_a"], "variable": ["A", "B", "S1", "x_2"], "derived": ["ratio", "d_tot", "mod1"], "reaction": ["v1", "v_out", "r2"]}
ESCAPED = ["x.a", "k-1", "v 1", "2x", "α"]


def budget(tier: str) -> dict:
    if tier == "quick":
        return {"examples": 600}
    return {"examples": 1200, "shards": 16}


class G:
    def __init__(self, draw, params):
        self.draw = draw
        self.params = params
        self.feats: set[str] = set()

    def atom(self):
        d = self.draw
        k = d(st.integers(0, 5))
        if k <= 2 and self.params:
            return d(st.sampled_from(self.params))
        if k == 3:
            self.feats.add("constant")
            return d(st.sampled_from(["math.pi", "math.e", "np.pi"]))
        return d(st.sampled_from(["0.5", "2.0", "1.5", "3", "0.25", "1"]))

    def cond(self):
        d = self.draw
        a, b = self.expr(1), self.expr(1)
        op = d(st.sampled_from(["<", "<=", ">", ">=", "==", "!="]))
        if d(st.integers(0, 3)) == 0:
            self.feats.add("chained_comparison")
            return f"{a} {op} {b} {d(st.sampled_from(['<', '<=', '>', '>=']))} {self.expr(1)}"
        return f"{a} {op} {b}"

    def expr(self, depth):
        d = self.draw
        if depth <= 0:
            return self.atom()
        k = d(st.sampled_from(["atom", "bin", "bin", "div", "neg", "pow", "ifexp", "fn", "fn"]))
        if k == "atom":
            return self.atom()
        if k == "bin":
            return f"({self.expr(depth - 1)} {d(st.sampled_from(['+', '-', '*']))} {self.expr(depth - 1)})"
        if k == "div":
            return f"({self.expr(depth - 1)} / (1.0 + {self.expr(depth - 1)} ** 2))"
        if k == "neg":
            self.feats.add("unary_minus")
            return f"(-{self.expr(depth - 1)})"
        if k == "pow":
            self.feats.add("power")
            return f"({self.expr(depth - 1)} ** {d(st.sampled_from(['2', '3', '0.5']))})" if d(st.booleans()) else f"((1.0 + {self.expr(depth - 1)} ** 2) ** 0.5)"
        if k == "ifexp":
            self.feats.add("conditional")
            return f"({self.expr(depth - 1)} if {self.cond()} else {self.expr(depth - 1)})"
        self.feats.add("math_function")
        if d(st.integers(0, 3)) == 0:
            # calls with several arguments: the exporter's BINARY / NARY tables, and two-argument forms of unary names
            self.feats.add("math_function_several_arguments")
            a, b = self.expr(depth - 1), self.expr(depth - 1)
            form = d(st.sampled_from(FORMS2))
            if form not in FORMS2_LISTED:
                self.feats.add("beyond:function_not_in_table")
            return form.format(a=a, b=b)
        f = d(st.sampled_from(MATH1))
        if f.split(".")[-1] not in TABLE1:
            self.feats.add("beyond:function_not_in_table")
        inner = self.expr(depth - 1)
        if f.split(".")[-1] in ("sqrt", "log", "log10", "arccosh", "acosh"):
            inner = f"1.0 + ({inner}) ** 2"
        elif f.split(".")[-1] in ("arcsin", "arccos", "arctanh", "asin", "acos", "atanh"):
            inner = f"({inner}) / (1.0 + ({inner}) ** 2)"
        return f"{f}({inner})"


BEYOND = {
    "modulo": "return ({a} % 2.0) + 1.0",
    "bool_and": "return 1.0 if ({a} > 0.5 and {a} < 2.0) else 2.0",
    "bool_not": "return 1.0 if not {a} > 0.5 else 2.0",
    "multi_statement": "t = {a} * 2.0\n    return t + 1.0",
    "helper_call": "return helper_double({a}) + 1.0",
    "unary_plus": "return +{a}",
    "exp_not_in_table": "return math.exp(-{a})",
    "floor_not_in_table": "return math.floor({a}) + 0.5",
    "pow_call": "return pow({a}, 2.0)",
    "floordiv": "return {a} // 0.5",
    "nested_ifexp_chain": "return 1.0 if 0.5 < {a} < 2.0 < 3.0 else 2.0",
}


@st.composite
def _fn(draw, name: str, n: int, beyond: str | None = None, own_names: list[str] | None = None):
    params = [f"a{i}" for i in range(n)]
    if own_names is not None:
        params = list(own_names)
    g = G(draw, params)
    if beyond is not None and n > 0:
        body = "    " + BEYOND[beyond].format(a=params[0])
        g.feats.add("beyond:" + beyond)
    else:
        body = f"    return {g.expr(draw(st.integers(1, 3)))}"
    return f"def {name}({', '.join(params)}):\n{body}\n", sorted(g.feats)


@st.composite
def _case(draw):
    npar = draw(st.integers(1, 4))
    nvar = draw(st.integers(1, 3))
    names = {k: list(draw(st.permutations(v))) for k, v in PLAIN_NAMES.items()}
    escaped = draw(st.integers(0, 5)) == 0
    pnames = names["parameter"][:npar]
    vnames = names["variable"][:nvar]
    if escaped:
        e = draw(st.sampled_from(ESCAPED))
        if draw(st.booleans()):
            pnames[0] = e
        else:
            vnames[0] = e
    beyond = draw(st.sampled_from(sorted(BEYOND))) if draw(st.integers(0, 5)) == 0 else None
    fsrc: list[str] = ["import math", "", "import numpy as np", "", "", "def helper_double(x):", "    return 2.0 * x", "", ""]
    feats: set[str] = set()
    decls: list[list] = []
    counter = [0]

    def newfn(n, bey=None, args=None):
        name = f"f{counter[0]}"
        counter[0] += 1
        own = None
        if args is not None and n >= 2 and len(set(args)) == n and all(a.isascii() and a.isidentifier() for a in args) and draw(st.integers(0, 2)) == 0:
            # the function's own parameter names are the model names it is called with, in another order
            own = args[1:] + args[:1]
            feats.add("parameter_names_cross_model_names")
        src, fs = draw(_fn(name, n, bey, own))
        fsrc.append(src)
        fsrc.append("")
        feats.update(fs)
        return {"kind": "lib", "module": "GENMOD", "name": name, "n": n}

    for p in pnames:
        decls.append(["parameter", p, {"value": draw(st.sampled_from([0.25, 0.5, 1.0, 1.5, 2.0, 3.0]))}])
    for v in vnames:
        decls.append(["variable", v, {"value": draw(st.sampled_from([0.5, 1.0, 2.0, 4.0]))}])
    avail = pnames + vnames
    used_beyond = False
    # initial assignments
    if draw(st.integers(0, 3)) == 0:
        args = [draw(st.sampled_from(pnames)) for _ in range(draw(st.integers(1, 2)))]
        tgt = draw(st.sampled_from(["variable", "parameter"]))
        feats.add(f"initial_assignment_{tgt}")
        if tgt == "variable":
            decls[npar + nvar - 1][2] = {"ia": {"fn": newfn(len(args)), "args": args}}
        else:
            decls.append(["parameter", "q_init", {"ia": {"fn": newfn(len(args)), "args": args}}])
            avail.append("q_init")
    for i in range(draw(st.integers(0, 3))):
        pool = pnames if draw(st.booleans()) else avail
        args = [draw(st.sampled_from(pool)) for _ in range(draw(st.integers(1, 3)))]
        nm = names["derived"][i]
        feats.add("derived_parameter" if all(a in pnames for a in args) else "derived_variable")
        decls.append(["derived", nm, {"fn": newfn(len(args), None, args), "args": args}])
        avail.append(nm)
    for i in range(draw(st.integers(1, 3))):
        args = [draw(st.sampled_from(avail)) for _ in range(draw(st.integers(1, 3)))]
        if draw(st.integers(0, 5)) == 0:
            args[draw(st.integers(0, len(args) - 1))] = "time"
            feats.add("time_argument")
        bey = None
        if beyond and not used_beyond:
            bey = beyond
            used_beyond = True
        sto = {}
        for v in draw(st.lists(st.sampled_from(vnames), min_size=1, max_size=min(2, nvar), unique=True)):
            kind = draw(st.sampled_from(["int", "int", "frac", "computed_pos", "computed_neg", "named"]))
            if kind == "named":
                # a coefficient given by name (a plain parameter)
                sto[v] = draw(st.sampled_from(pnames))
                feats.add("named_coefficient")
            elif kind == "int":
                sto[v] = draw(st.sampled_from([-1, 1, 2, -2]))
            elif kind == "frac":
                sto[v] = draw(st.sampled_from([0.5, -0.5, 1.5, -2.5]))
                feats.add("fractional_coefficient")
            else:
                feats.add("computed_coefficient_" + kind[-3:])
                a = [draw(st.sampled_from(pnames))]
                name = f"f{counter[0]}"
                counter[0] += 1
                sign = "" if kind.endswith("pos") else "-"
                fsrc.append(f"def {name}(a0):\n    return {sign}(a0 * {draw(st.sampled_from(['2.0', '0.5', '1.5']))})\n")
                fsrc.append("")
                sto[v] = {"fn": {"kind": "lib", "module": "GENMOD", "name": name, "n": 1}, "args": a}
        decls.append(["reaction", names["reaction"][i], {"fn": newfn(len(args), bey, args), "args": args, "stoich": sto}])
    if escaped:
        feats.add("name_needing_escaping")
    state = {v: draw(st.sampled_from([0.3, 0.7, 1.2, 2.5])) for v in vnames}
    return {"src": "\n".join(fsrc), "spec": {"decls": decls}, "state": state, "features": sorted(feats)}


def strategy(tier: str):
    return _case()


_n = [0]


def prepare(ctx) -> None:
    pkg = ctx.work / "mods" / "genpkg"
    pkg.mkdir(parents=True, exist_ok=True)
    (pkg / "__init__.py").write_text("")
    sys.path.insert(0, str(ctx.work / "mods"))
    ctx.extra["genpkg"] = str(pkg)
    (ctx.work / "sbml").mkdir(exist_ok=True)


def _bind(spec, modname):
    import copy

    s = copy.deepcopy(spec)

    def fix(h):
        if isinstance(h, dict) and h.get("module") == "GENMOD":
            h["module"] = modname

    for _, _, p in s["decls"]:
        for h in [p.get("fn"), (p.get("ia") or {}).get("fn")]:
            fix(h)
        for c in (p.get("stoich") or {}).values():
            if isinstance(c, dict):
                fix(c["fn"])
    return s


NONTRIV = {"parameter_names_cross_model_names", "conditional", "chained_comparison", "math_function", "computed_coefficient_pos", "computed_coefficient_neg", "initial_assignment_variable", "initial_assignment_parameter", "fractional_coefficient", "name_needing_escaping"}
LISTED_PRIORITY = ["name_needing_escaping", "initial_assignment_variable", "initial_assignment_parameter", "computed_coefficient_neg", "computed_coefficient_pos", "chained_comparison", "conditional", "math_function", "fractional_coefficient", "constant", "power", "unary_minus"]


def _raised_in(e: BaseException) -> str:
    tb = e.__traceback__
    last = "?"
    while tb is not None:
        fn = tb.tb_frame.f_code.co_filename
        for pkg in ("sympy", "pysbml", "libsbml", "mxlpy"):
            if f"/{pkg}/" in fn:
                last = pkg
        tb = tb.tb_next
    return last


def _in_piecewise_eval(e: BaseException) -> bool:
    tb = e.__traceback__
    n = 0
    while tb is not None:
        if tb.tb_frame.f_code.co_filename.endswith("sympy/functions/elementary/piecewise.py") and tb.tb_frame.f_code.co_name == "eval":
            n += 1
        tb = tb.tb_next
    return n >= 10


def _conditional_inside_condition(src: str) -> bool:
    import ast

    for node in ast.walk(ast.parse(src)):
        if isinstance(node, ast.IfExp) and any(isinstance(x, ast.IfExp) for x in ast.walk(node.test)):
            return True
    return False


def _ill_conditioned(case: dict, ctx, st0: dict) -> list[str]:
    """Re-evaluate the original model with instrumented functions: which comparisons / roundings sat on their discontinuity?"""
    from vlib import illcond

    _n[0] += 1
    modname = f"genpkg.m{_n[0]}_probe"
    path = Path(ctx.extra["genpkg"]) / f"m{_n[0]}_probe.py"
    path.write_text(illcond.instrument(case["src"]))
    importlib.invalidate_caches()
    try:
        importlib.import_module(modname)
        m = build(_bind(case["spec"], modname))
        illcond.reset()
        m.get_initial_conditions()
        m.get_args()
        m.get_args(dict(st0), 0.75)
        m.get_right_hand_side(dict(st0), 0.75)
        return illcond.ties()
    finally:
        sys.modules.pop(modname, None)
        path.unlink(missing_ok=True)


def examine(case: dict, ctx) -> Outcome:
    out = _examine(case, ctx)
    value_sigs = ("initial-value-differs", "parameter-value-differs", "flux-differs", "derived-value-differs", "derivative-differs")
    error_sigs = ("reread-model-raises", "written-file-cannot-be-read")
    if any(sig.split(":")[0] in value_sigs + error_sigs for sig, _ in out.verdicts):
        try:
            t = _ill_conditioned(case, ctx, case["state"])
        except Exception:  # noqa: BLE001
            t = []
        # a tie excuses a different value; only an undefined operation (complex / nan intermediate that the original
        # happens to swallow) excuses a failure to read or evaluate
        if not any(sig.split(":")[0] in value_sigs for sig, _ in out.verdicts):
            t = [x for x in t if "undefined operand" in x]
        if t:
            # the original sits on a discontinuity (a tie inside a comparison, ceil of an integer up to rounding):
            # either side is a faithful answer, the difference is not judged
            out.verdicts = []
            out.classes.append("mismatch-at-ill-conditioned-point:not-judged")
            out.nontrivial = None
    return out


def _examine(case: dict, ctx) -> Outcome:
    from mxlpy import sbml

    out = Outcome()
    feats = set(case["features"])
    beyond = sorted(f for f in feats if f.startswith("beyond:"))
    _n[0] += 1
    modname = f"genpkg.m{_n[0]}"
    path = Path(ctx.extra["genpkg"]) / f"m{_n[0]}.py"
    path.write_text(case["src"])
    importlib.invalidate_caches()
    try:
        importlib.import_module(modname)
        spec = _bind(case["spec"], modname)
        out.classes = sorted(feats)
        root = beyond[0] if beyond else next((p for p in LISTED_PRIORITY if p in feats), "plain")
        try:
            m = build(spec)
            vn = m.get_variable_names()
            st0 = dict(case["state"])
            ref_args = m.get_args(st0, 0.75)
            ref_rhs = m.get_right_hand_side(st0, 0.75)
            ref_ic = dict(m.get_initial_conditions())
            ref_pv = dict(m.get_args())
        except (ZeroDivisionError, OverflowError, ValueError, TypeError):
            out.skipped = "reference-undefined"
            return out
        if any(isinstance(v, complex) for v in [*ref_ic.values(), *ref_pv.values()]):
            out.skipped = "reference-undefined"
            return out
        vals = np.array([float(v) for v in ref_args.to_numpy()] + [float(v) for v in ref_rhs.to_numpy()] + [float(v) for v in ref_ic.values()] + [float(v) for v in ref_pv.values()])
        if not np.all(np.isfinite(vals)) or np.abs(vals).max() > 1e9:
            out.skipped = "reference-non-finite"
            return out
        if feats & NONTRIV and not beyond:
            out.nontrivial = [case["src"], [(d[0], d[1]) for d in spec["decls"]]]
            out.sample = {"functions": case["src"][-600:], "components": [(d[0], d[1]) for d in spec["decls"]]}

        f = ctx.work / "sbml" / f"model_{_n[0]}.xml"
        try:
            sbml.write(m, f)
            wexc = None
        except Exception as e:  # noqa: BLE001
            wexc = e
        if wexc is not None:
            if beyond:
                out.classes.append("export-refused:beyond")
            else:
                out.bad(f"write-raises:{type(wexc).__name__}:{root}", error=repr(wexc)[:200], src=case["src"][-500:])
            return out
        try:
            m2 = sbml.read(f)
        except Exception as e:  # noqa: BLE001
            where = _raised_in(e)
            if where == "sympy" and _conditional_inside_condition(case["src"]):
                # bucket by (type, innermost package frame, construct): the file is valid SBML, sympy's Piecewise
                # cannot be built from a relational whose operand is itself a piecewise
                out.bad(f"written-file-cannot-be-read:{type(e).__name__}:raised-in-sympy:conditional-inside-condition", error=repr(e)[:200], src=case["src"][-500:])
            elif where == "sympy" and isinstance(e, RecursionError) and _in_piecewise_eval(e):
                # sympy's Piecewise.eval never terminates on relations such as `k - pi > k - K` (same symbol on both sides, irrational offset)
                out.bad("written-file-cannot-be-read:RecursionError:raised-in-sympy:Piecewise.eval-does-not-terminate", error=repr(e)[:200], src=case["src"][-500:])
            else:
                out.bad(f"written-file-cannot-be-read:{type(e).__name__}:{root}", error=repr(e)[:200], raised_in=where, src=case["src"][-500:])
            return out
        if beyond:
            out.classes.append("export-accepted:beyond")
        try:
            ids2 = m2.ids
            for k, name, _ in spec["decls"]:
                if name not in ids2:
                    why = "name-needing-escaping" if not (name.isascii() and name.isidentifier()) else f"{k}:{root}"
                    out.bad(f"component-missing-after-roundtrip:{why}", name=name, have=sorted(ids2)[:20])
                    return out
            ic2 = m2.get_initial_conditions()
            for v, val in ref_ic.items():
                if v not in ic2 or not close(ic2[v], val):
                    out.bad(f"initial-value-differs:{root}", var=v, got=ic2.get(v), want=val)
                    return out
            a0 = m2.get_args()
            for name in [n for k, n, _ in spec["decls"] if k == "parameter"]:
                if not close(a0[name], ref_pv[name]):
                    out.bad(f"parameter-value-differs:{root}", name=name, got=float(a0[name]), want=float(ref_pv[name]))
                    return out
            st2 = dict(m2.get_initial_conditions())
            st2.update(st0)
            a2 = m2.get_args(st2, 0.75)
            r2 = m2.get_right_hand_side(st2, 0.75)
            for k, name, _ in spec["decls"]:
                if k in ("derived", "reaction"):
                    if not close(a2[name], ref_args[name]):
                        out.bad(f"{'flux' if k == 'reaction' else 'derived-value'}-differs:{root}", name=name, got=float(a2[name]), want=float(ref_args[name]), src=case["src"][-500:])
                        return out
            for v in vn:
                if not close(r2[v], ref_rhs[v], abs(float(ref_rhs[v]))):
                    out.bad(f"derivative-differs:{root}", var=v, got=float(r2[v]), want=float(ref_rhs[v]), src=case["src"][-500:])
                    return out
        except Exception as e:  # noqa: BLE001
            out.bad(f"reread-model-raises:{type(e).__name__}:{root}", error=repr(e)[:200])
        return out
    finally:
        sys.modules.pop(modname, None)
        try:
            path.unlink()
        except OSError:
            pass


def floors(ctx) -> list[str]:
    c = []
    for k in ["conditional", "chained_comparison", "math_function", "computed_coefficient_neg", "computed_coefficient_pos", "fractional_coefficient", "name_needing_escaping", "derived_parameter", "derived_variable"]:
        if ctx.classes.get(k, 0) < 5:
            c.append(f"class {k} only {ctx.classes.get(k, 0)}")
    if sum(v for k, v in ctx.classes.items() if k.startswith("initial_assignment")) < 5:
        c.append("initial assignments rare")
    return c
