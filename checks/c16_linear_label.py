"""C16 — linear label model tracks the isotopomer model's positional enrichment."""

from __future__ import annotations

import itertools

import numpy as np
from hypothesis import strategies as st

from vlib import gen_networks as gn
from vlib.core import HarnessError, Outcome
from vlib.spec import close

ID = "C16"
LEVEL = "exploration"
DESIGN_REF = "DESIGN.md section 5, C16"
RULE = (
    "Flux-balanced mass-action networks by construction: 1-3 elementary routes (influx -> chain / merge / split -> "
    "efflux) over 2-5 compounds with 1-3 label positions, each route with a positive flux, drawn pool sizes and "
    "k_r = v_r / prod(substrate pools); atom-transition maps as permutations of range(max(S,P)) incl. non-involutive "
    "cycles, merges and splits; random isotopomer distributions consistent with the pool sizes. Oracles: (1) "
    "differential: LinearLabelMapper right-hand side at the positional enrichments vs the isotopomer model's "
    "right-hand side aggregated to enrichment derivatives (external pool fully labelled); (2) direct formula from the "
    "documented reading (product position i is built from substrate position map[i]); (3) metamorphic: uniform "
    "enrichment equal to the external pool is stationary for several external values; no external and no initial label "
    "-> right-hand side 0 and a short simulation stays 0. Non-trivial: some mapped reaction has a non-involutive map or "
    "is a merge / split; distinct by (routes, labels, maps)."
)
ASSUMPTIONS = [
    "2A -> B reactions are excluded here (C05 owns them); every compound in a mapped reaction is labelled (the linear mapper requires it)",
    "the base model is at steady state by construction; ||N v|| < 1e-12 ||v|| is asserted on every case",
    "tolerance 1e-9 relative",
]
TECHNIQUE = "property-based differential testing (linear label model vs aggregated isotopomer model) + direct formula from the documented map direction + metamorphic stationarity relations"
LEVEL_TEXT = "Generated steady-state networks with non-involutive maps (a floor of 25% is enforced); both mappers are built from the same inputs and compared at random labelling states, and against the documented reading of a map."
LEVEL_NOTE = "Trusted: LabelMapper's structure (decided by C05), Model right-hand sides (C01)."


def budget(tier: str) -> dict:
    if tier == "quick":
        return {"examples": 800}
    return {"examples": 1500, "shards": 16, "fuzz_seconds": 45}


@st.composite
def _case(draw):
    ncomp = draw(st.integers(2, 5))
    comps = gn.NAMES[:ncomp]
    labels = {c: draw(st.integers(1, 3)) for c in comps}
    pools = {c: draw(st.sampled_from([0.5, 1.0, 2.0, 3.0])) for c in comps}
    reactions = []
    n = [0]

    def add(subs, prods, flux, kind):
        S = sum(labels[c] for c in subs)
        P = sum(labels[c] for c in prods)
        m = draw(gn.perm_map(max(S, P), draw(st.sampled_from(["cycle", "cycle", "any", "reversal", "identity"]))))
        reactions.append({"name": f"v{n[0]}", "template": kind, "subs": subs, "prods": prods, "flux": flux, "map": m})
        n[0] += 1

    for _ in range(draw(st.integers(1, 3))):
        f = draw(st.sampled_from([0.25, 0.5, 1.0, 1.5, 2.0]))
        kind = draw(st.sampled_from(["chain", "chain", "merge", "split"]))
        if kind == "chain" or ncomp < 3:
            k = draw(st.integers(1, min(3, ncomp)))
            path = draw(st.lists(st.sampled_from(comps), min_size=k, max_size=k, unique=True))
            add([], [path[0]], f, "influx")
            for a, b in zip(path, path[1:]):
                add([a], [b], f, "uni")
            add([path[-1]], [], f, "efflux")
        elif kind == "merge":
            a, b, c = draw(st.lists(st.sampled_from(comps), min_size=3, max_size=3, unique=True))
            if labels[a] + labels[b] > 6:
                continue
            add([], [a], f, "influx")
            add([], [b], f, "influx")
            add([a, b], [c], f, "merge")
            add([c], [], f, "efflux")
        else:
            a, b, c = draw(st.lists(st.sampled_from(comps), min_size=3, max_size=3, unique=True))
            add([], [c], f, "influx")
            add([c], [a, b], f, "split")
            add([a], [], f, "efflux")
            add([b], [], f, "efflux")
    used = {c for r in reactions for c in r["subs"] + r["prods"]}
    if not reactions:
        c = comps[0]
        add([], [c], 1.0, "influx")
        add([c], [], 1.0, "efflux")
        used = {c}
    weights = [draw(st.sampled_from([0.0, 0.1, 0.3, 1.0, 2.0])) for _ in range(16)]
    return {"labels": {c: labels[c] for c in comps if c in used}, "pools": {c: pools[c] for c in comps if c in used}, "reactions": reactions, "weights": weights, "ext_values": [draw(st.sampled_from([0.0, 0.3, 0.5, 1.0]))]}


def strategy(tier: str):
    return _case()


def _isos(c, n):
    return [f"{c}__{''.join(b)}" for b in itertools.product("01", repeat=n)]


def examine(case: dict, ctx) -> Outcome:
    import pandas as pd
    from mxlpy import Simulator
    from mxlpy.label_map import LabelMapper
    from mxlpy.linear_label_map import LinearLabelMapper

    out = Outcome()
    labels, pools = case["labels"], case["pools"]
    rx = case["reactions"]
    net = {"labels": labels, "pools": pools, "reactions": []}
    for r in rx:
        sub_prod = float(np.prod([pools[c] for c in r["subs"]])) if r["subs"] else 1.0
        net["reactions"].append({**r, "k": r["flux"] / sub_prod})
    base = gn.build_base(net)
    # steady state by construction
    v = base.get_fluxes()
    dx = base.get_right_hand_side()
    if float(np.abs(dx.to_numpy()).max()) > 1e-12 * (1 + float(np.abs(v.to_numpy()).max())):
        raise HarnessError("generated network is not at steady state")
    maps = {r["name"]: list(r["map"]) for r in rx}
    noninv = any(len(r["map"]) >= 3 and not gn.is_involution(r["map"]) for r in rx)
    mergesplit = any(r["template"] in ("merge", "split") for r in rx)
    out.classes = [f"template:{r['template']}" for r in rx]
    if noninv:
        out.classes.append("non_involutive_map")
    if noninv or mergesplit:
        out.nontrivial = [labels, [(r["subs"], r["prods"], r["map"]) for r in rx]]
        out.sample = {"labels": labels, "pools": pools, "reactions": [{k: r[k] for k in ("name", "subs", "prods", "flux", "map")} for r in rx]}

    concs = pd.Series(pools, dtype=float)
    fluxes = pd.Series({r["name"]: r["flux"] for r in rx}, dtype=float)
    try:
        iso_model = LabelMapper(base, label_variables=dict(labels), label_maps=maps).build_model()
        lin_model = LinearLabelMapper(base, label_variables=dict(labels), label_maps=maps).build_model(concs=concs, fluxes=fluxes, external_label=1.0)
    except Exception as e:  # noqa: BLE001
        out.bad(f"build-raises:{type(e).__name__}", error=repr(e)[:200])
        return out

    # random isotopomer distribution with the steady-state pool sizes
    w = case["weights"]
    state = {}
    k = 0
    for c, n in labels.items():
        isos = _isos(c, n)
        ws = [w[(k + i) % len(w)] + 0.05 for i in range(len(isos))]
        k += len(isos)
        tot = sum(ws)
        for iso, wi in zip(isos, ws):
            state[iso] = pools[c] * wi / tot
    enr = {}
    for c, n in labels.items():
        for p in range(n):
            enr[f"{c}__{p}"] = sum(state[i] for i in _isos(c, n) if i.split("__")[1][p] == "1") / pools[c]
    try:
        iso_rhs = iso_model.get_right_hand_side(dict(state), 0.0)
        lin_rhs = lin_model.get_right_hand_side(dict(enr), 0.0)
    except Exception as e:  # noqa: BLE001
        out.bad(f"rhs-raises:{type(e).__name__}", error=repr(e)[:200])
        return out
    # (2) direct formula from the documented reading
    direct = dict.fromkeys(enr, 0.0)
    for r in rx:
        sp = [(c, p) for c in r["subs"] for p in range(labels[c])]
        pp = [(c, p) for c in r["prods"] for p in range(labels[c])]
        padded = sp + [None] * max(0, len(pp) - len(sp))
        for i, (c, p) in enumerate(pp):
            src = padded[r["map"][i]]
            e_src = 1.0 if src is None else enr[f"{src[0]}__{src[1]}"]
            direct[f"{c}__{p}"] += r["flux"] * e_src / pools[c]
        for c, p in sp:
            direct[f"{c}__{p}"] -= r["flux"] * enr[f"{c}__{p}"] / pools[c]
    cls = "non-involutive" if noninv else "involutive-only"
    for c, n in labels.items():
        for p in range(n):
            key = f"{c}__{p}"
            agg = float(sum(iso_rhs[i] for i in _isos(c, n) if i.split("__")[1][p] == "1")) / pools[c]
            if not close(agg, direct[key], abs(direct[key])):
                out.bad(f"isotopomer-model-differs-from-documented-map-direction:{cls}", position=key, isotopomer=agg, documented=direct[key])
                return out
            if not close(float(lin_rhs[key]), agg, abs(agg)):
                out.bad(f"linear-model-differs-from-isotopomer-model:{cls}", position=key, linear=float(lin_rhs[key]), isotopomer=agg, documented=direct[key], maps=maps)
                return out
    # (3) metamorphic relations
    for ext in case["ext_values"]:
        try:
            lm = LinearLabelMapper(base, label_variables=dict(labels), label_maps=maps).build_model(concs=concs, fluxes=fluxes, external_label=ext)
            r0 = lm.get_right_hand_side(dict.fromkeys(enr, ext), 0.0)
        except Exception as e:  # noqa: BLE001
            out.bad(f"rhs-raises:{type(e).__name__}", error=repr(e)[:200])
            return out
        if float(np.abs(r0.to_numpy()).max()) > 1e-9:
            out.bad("uniform-enrichment-equal-to-external-not-stationary", external=ext, rhs={k_: float(v_) for k_, v_ in r0.items() if abs(v_) > 1e-9})
            return out
    lm0 = LinearLabelMapper(base, label_variables=dict(labels), label_maps=maps).build_model(concs=concs, fluxes=fluxes, external_label=0.0)
    res = Simulator(lm0).simulate(1.0, steps=3).get_result().value
    if isinstance(res, Exception):
        out.bad(f"simulation-of-unlabelled-system-fails:{type(res).__name__}")
    elif float(np.abs(res.variables.to_numpy()).max()) > 1e-12:
        out.bad("label-appears-from-nothing", max=float(np.abs(res.variables.to_numpy()).max()))
    return out


def floors(ctx) -> list[str]:
    c = []
    ni = ctx.classes.get("non_involutive_map", 0)
    if ni < 0.25 * ctx.evaluations:
        c.append(f"non-involutive maps only {ni}/{ctx.evaluations} (< 25%)")
    for k in ["template:merge", "template:split", "template:uni"]:
        if ctx.classes.get(k, 0) < 5:
            c.append(f"class {k} only {ctx.classes.get(k, 0)}")
    return c
