"""C10 — result views are consistent functions of states and segment parameters."""

from __future__ import annotations

import copy

import numpy as np
from hypothesis import strategies as st

from vlib import gen_models as gm
from vlib.core import Outcome
from vlib.spec import Ref, build, close, decls_of, var_names

ID = "C10"
LEVEL = "exploration"
DESIGN_REF = "DESIGN.md section 5, C10"
RULE = (
    "Generated model specs (derived chains, readouts, surrogates, parameter- and state-dependent sign-definite computed "
    "coefficients) x multi-segment results built as Simulation(model, raw_variables, raw_parameters) with 1-4 segments "
    "of 1-5 rows and different parameter values per segment (a class of cases comes from real Simulator histories); the "
    "model's parameters are overwritten afterwards; then a drawn permutation of view calls with drawn flag "
    "combinations, each executed twice: variables, fluxes, get_args, get_variables, get_fluxes, get_combined, "
    "get_right_hand_side, get_producers/consumers(scaled), get_new_y0, with normalise in {None, float, numpy float, per "
    "segment, per row} and concatenated in {True, False}. Oracle: reference evaluator per row under that row's segment "
    "parameters; N*v=dx/dt; stacking; sign partition. Non-trivial: >=2 segments with different parameter values and >=3 "
    "distinct views read; distinct by (structure, segment shape, view sequence)."
)
ASSUMPTIONS = [
    "coefficients are generated sign-definite; a variable whose coefficient sign still changes between rows is skipped for producers/consumers",
    "numpy float32 scalars and other non-float scalars are outside the documented normalise domain (float | ArrayLike)",
    "tolerance 1e-9 relative",
]
TECHNIQUE = "property-based differential testing of all result views (drawn read orders, flags, normalisation shapes) against a per-row reference evaluation under segment parameters"
LEVEL_TEXT = "Generated multi-segment results and read orders; every view value is recomputed independently per row under that row's segment parameters, after the model's parameters were changed."
LEVEL_NOTE = "Trusted: vlib/spec.py reference evaluator; pandas for frame assembly."

CASE_TIMEOUT = 10.0
VIEW_FLAGS = [
    "include_variables",
    "include_parameters",
    "include_derived_parameters",
    "include_derived_variables",
    "include_reactions",
    "include_surrogate_variables",
    "include_surrogate_fluxes",
    "include_readouts",
]


def budget(tier: str) -> dict:
    if tier == "quick":
        return {"examples": 400}
    return {"examples": 1200, "shards": 16}


@st.composite
def _norm(draw):
    return draw(st.sampled_from(["none", "none", "float", "npfloat", "segment", "row"])), draw(st.integers(1, 40).map(lambda i: i / 8))


@st.composite
def _view(draw):
    kind = draw(
        st.sampled_from(
            ["variables", "fluxes", "get_args", "get_args", "get_variables", "get_fluxes", "get_combined", "get_right_hand_side", "get_producers", "get_consumers", "get_producers", "get_new_y0"]
        )
    )
    v = {"view": kind}
    if kind in ("get_args", "get_variables", "get_fluxes", "get_right_hand_side", "get_producers", "get_consumers"):
        v["norm"], v["norm_base"] = draw(_norm())
        v["concatenated"] = draw(st.booleans())
    if kind == "get_args":
        v["flags"] = {f: draw(st.booleans()) for f in VIEW_FLAGS}
    if kind == "get_variables":
        v["flags"] = {f: draw(st.booleans()) for f in ("include_derived_variables", "include_readouts", "include_surrogate_variables")}
    if kind == "get_fluxes":
        v["flags"] = {"include_surrogates": draw(st.booleans())}
    if kind in ("get_producers", "get_consumers"):
        v["var"] = draw(st.integers(0, 5))
        v["scaled"] = draw(st.booleans())
    return v


@st.composite
def _case(draw):
    spec = draw(gm.full_spec(max_nodes=6, sign_stable_coefficients=True, ia_weight=1))
    plain = [n for n, p in decls_of(spec, "parameter") if "ia" not in p]
    nseg = draw(st.integers(1, 4))
    segs = []
    t = 0.0
    base = {n: p["value"] for n, p in decls_of(spec, "parameter") if "ia" not in p}
    for s in range(nseg):
        rows = []
        for _ in range(draw(st.integers(1, 5))):
            t += draw(st.integers(1, 40)) / 8
            rows.append([t, draw(gm.state_for(spec))])
        pv = dict(base)
        if s > 0 or draw(st.booleans()):
            for n in plain:
                if draw(st.booleans()):
                    pv[n] = draw(gm.value)
        segs.append({"rows": rows, "params": pv})
    after = {n: draw(gm.value) for n in plain if draw(st.booleans())}
    views = [draw(_view()) for _ in range(draw(st.integers(3, 8)))]
    change_mid = draw(st.integers(0, len(views)))
    return {"spec": spec, "segments": segs, "overwrite_after": after, "views": views, "change_mid": change_mid, "mode": draw(st.sampled_from(["direct"] * 4 + ["real"]))}


def strategy(tier: str):
    return _case()


def _with_params(spec: dict, pv: dict) -> dict:
    s = copy.deepcopy(spec)
    for d in s["decls"]:
        if d[0] == "parameter" and "ia" not in d[2] and d[1] in pv:
            d[2]["value"] = pv[d[1]]
    return s


def _names(ref: Ref, spec: dict, flags: dict) -> list[str]:
    dpar = ref.derived_parameters()
    names: list[str] = []
    if flags.get("include_variables"):
        names += var_names(spec)
    if flags.get("include_parameters"):
        names += [n for n, _ in decls_of(spec, "parameter")]
    if flags.get("include_derived_variables"):
        names += [n for n, _ in decls_of(spec, "derived") if n not in dpar]
    if flags.get("include_derived_parameters"):
        names += [n for n, _ in decls_of(spec, "derived") if n in dpar]
    if flags.get("include_reactions"):
        names += [n for n, _ in decls_of(spec, "reaction")]
    if flags.get("include_surrogate_variables"):
        for _, p in decls_of(spec, "surrogate"):
            names += [o for o in p["outputs"] if o not in p["stoich"]]
    if flags.get("include_surrogate_fluxes"):
        for _, p in decls_of(spec, "surrogate"):
            names += list(p["stoich"])
    if flags.get("include_readouts"):
        names += [n for n, _ in decls_of(spec, "readout")]
    return names


def examine(case: dict, ctx) -> Outcome:
    import pandas as pd
    from mxlpy import Simulator
    from mxlpy.simulation import Simulation

    out = Outcome()
    spec = case["spec"]
    vn = var_names(spec)
    feats = gm.features(spec)
    segs = case["segments"]
    try:
        m = build(spec)
    except Exception as e:  # noqa: BLE001
        out.bad("build-raises:" + type(e).__name__, error=repr(e))
        return out

    mode = case["mode"]
    plain = [n for n, p in decls_of(spec, "parameter") if "ia" not in p]
    if mode == "real":
        # only tame dynamics: generated polynomial right-hand sides can blow up in finite time
        try:
            r0 = m.get_right_hand_side()
            if not np.all(np.isfinite(r0.to_numpy())) or np.abs(r0.to_numpy()).max() > 100:
                mode = "direct"
                out.classes.append("real->direct(untame)")
        except Exception:  # noqa: BLE001
            mode = "direct"
    if mode == "real":
        # segments from a real Simulator history: short simulate calls with parameter updates in between
        try:
            sim = Simulator(m)
            t_end = 0.0
            for sg in segs:
                m.update_parameters({k: v for k, v in sg["params"].items() if k in plain})
                t_end += 0.001 * len(sg["rows"])
                sim.simulate(t_end, steps=len(sg["rows"]))
            r = sim.get_result().value
        except Exception:  # noqa: BLE001
            r = None
        if r is None or isinstance(r, Exception):
            out.skipped = "real-history-integration-failed"
            return out
        res = r
        frames = [df.copy() for df in res.raw_variables]
        seg_params = [dict(sg["params"]) for sg in segs]
        for df in frames:
            if not np.all(np.isfinite(df.to_numpy())) or np.abs(df.to_numpy()).max() > 1e6:
                out.skipped = "real-history-diverged"
                return out
    else:
        frames = [pd.DataFrame([s for _, s in sg["rows"]], index=[t for t, _ in sg["rows"]], columns=vn, dtype=float) for sg in segs]
        seg_params = [dict(sg["params"]) for sg in segs]
        res = Simulation(model=m, raw_variables=[f.copy() for f in frames], raw_parameters=[dict(p) for p in seg_params])
    nseg = len(frames)
    nrows = [len(f) for f in frames]
    total = sum(nrows)

    # reference per row
    refs = [Ref(_with_params(spec, p)) for p in seg_params]
    exp_all: list[list[dict]] = []
    exp_rhs: list[list[tuple]] = []
    exp_sto: list[list[dict]] = []
    for ref, f in zip(refs, frames):
        a, r_, s_ = [], [], []
        for t, row in f.iterrows():
            st_ = {k: float(v) for k, v in row.items()}
            a.append(ref.evaluate(st_, float(t), readouts=True))
            r_.append(ref.rhs(st_, float(t)))
            s_.append(ref.stoich_terms(st_, float(t)))
        exp_all.append(a)
        exp_rhs.append(r_)
        exp_sto.append(s_)
    ref0 = refs[0]

    params_differ = any(seg_params[i] != seg_params[i + 1] for i in range(nseg - 1))
    out.classes = [f"mode:{mode}", f"segments={nseg}", "params_differ" if params_differ else "params_same"] + [f"feat:{x}" for x in sorted(feats & {"state_dependent_coefficient", "computed_coefficient", "readout", "surrogate_flux", "time_in_coefficient"})]

    # overwrite the model's parameters after the result exists
    if case["overwrite_after"]:
        m.update_parameters({k: v for k, v in case["overwrite_after"].items() if k in plain})
        out.classes.append("model_overwritten_afterwards")

    def norm_arg(kind: str, base: float):
        if kind == "none":
            return None, None
        if kind == "float":
            return base, [[base] * n for n in nrows]
        if kind == "npfloat":
            return np.float64(base), [[base] * n for n in nrows]
        if kind == "segment":
            fac = [base * (i + 1) for i in range(nseg)]
            if nseg == total and nseg > 1:
                pass  # per-segment == per-row, same meaning
            return list(fac), [[fac[i]] * nrows[i] for i in range(nseg)]
        fac = [base * (1 + 0.5 * j) for j in range(total)]
        per = []
        k = 0
        for n in nrows:
            per.append(fac[k : k + n])
            k += n
        return np.array(fac), per

    def check_frames(label: str, got, names: list[str], conc: bool, getter, per_norm):
        """got: DataFrame or list of DataFrames; getter(seg, row, name) -> expected value"""
        if conc:
            if not isinstance(got, pd.DataFrame):
                out.bad(f"{label}:type", got=type(got).__name__)
                return
            parts = []
            k = 0
            if len(got) != total:
                out.bad(f"{label}:stacked-length", got=len(got), want=total)
                return
            for n in nrows:
                parts.append(got.iloc[k : k + n])
                k += n
        else:
            if not isinstance(got, list) or len(got) != nseg:
                out.bad(f"{label}:segment-list", got=type(got).__name__)
                return
            parts = got
        for si, part in enumerate(parts):
            if list(part.columns) != names:
                if sorted(part.columns) != sorted(names):
                    out.bad(f"{label}:columns", got=list(part.columns), want=names)
                    return
            if len(part) != nrows[si] or [float(x) for x in part.index] != [float(x) for x in frames[si].index]:
                out.bad(f"{label}:index", seg=si, got=[float(x) for x in part.index], want=[float(x) for x in frames[si].index])
                return
            arr = part.loc[:, names].to_numpy(dtype=float) if names else np.zeros((nrows[si], 0))
            for ri in range(nrows[si]):
                for ci, nme in enumerate(names):
                    want, scale = getter(si, ri, nme)
                    if per_norm is not None:
                        want = want / per_norm[si][ri]
                        scale = scale / abs(per_norm[si][ri])
                    g = float(arr[ri, ci])
                    if not close(g, want, scale):
                        out.bad(f"{label}:value", seg=si, row=ri, name=nme, got=g, want=want)
                        return

    def val(si, ri, nme):
        return exp_all[si][ri][nme], 0.0

    views_read = set()
    for vi, v in enumerate(case["views"]):
        if vi == case["change_mid"] and plain:
            m.update_parameters({plain[0]: 123.456})
            out.classes.append("model_changed_between_reads")
        kind = v["view"]
        views_read.add(kind)
        n_before = len(out.verdicts)
        for rep in (0, 1):
            if rep == 1 and len(out.verdicts) > n_before:
                break  # the first read already failed; a second identical failure is the same root cause
            tag = f"{kind}" + ("" if rep == 0 else ":second-read")
            try:
                if kind == "variables":
                    names = _names(ref0, spec, {"include_variables": True, "include_derived_variables": True, "include_surrogate_variables": True, "include_readouts": True})
                    check_frames(tag, res.variables, names, True, val, None)
                elif kind == "fluxes":
                    names = _names(ref0, spec, {"include_reactions": True, "include_surrogate_fluxes": True})
                    check_frames(tag, res.fluxes, names, True, val, None)
                elif kind == "get_combined":
                    names = _names(ref0, spec, {"include_variables": True, "include_derived_variables": True, "include_surrogate_variables": True, "include_readouts": True}) + _names(ref0, spec, {"include_reactions": True, "include_surrogate_fluxes": True})
                    check_frames(tag, res.get_combined(), names, True, val, None)
                elif kind == "get_new_y0":
                    got = res.get_new_y0()
                    want = {k: float(x) for k, x in frames[-1].iloc[-1].items()}
                    if set(got) != set(want) or any(not close(got[k], want[k]) for k in want):
                        out.bad(f"{tag}:value", got={k: float(x) for k, x in got.items()}, want=want)
                else:
                    na, per = norm_arg(v["norm"], v["norm_base"])
                    ntag = f"{tag}[{'per-row-normalisation' if v['norm'] == 'row' else 'norm'}]"
                    if kind == "get_args":
                        names = _names(ref0, spec, v["flags"])
                        got = res.get_args(**v["flags"], concatenated=v["concatenated"], normalise=na)
                        check_frames(ntag, got, names, v["concatenated"], val, per)
                    elif kind == "get_variables":
                        names = _names(ref0, spec, {"include_variables": True, **v["flags"]})
                        got = res.get_variables(**v["flags"], concatenated=v["concatenated"], normalise=na)
                        check_frames(ntag, got, names, v["concatenated"], val, per)
                    elif kind == "get_fluxes":
                        names = _names(ref0, spec, {"include_reactions": True, "include_surrogate_fluxes": v["flags"]["include_surrogates"]})
                        got = res.get_fluxes(**v["flags"], concatenated=v["concatenated"], normalise=na)
                        check_frames(ntag, got, names, v["concatenated"], val, per)
                    elif kind == "get_right_hand_side":
                        got = res.get_right_hand_side(concatenated=v["concatenated"], normalise=na)

                        def rv(si, ri, nme):
                            dx, sc = exp_rhs[si][ri]
                            return dx[nme], sc[nme]

                        check_frames(ntag + (":time_in_coefficient" if "time_in_coefficient" in feats else ""), got, vn, v["concatenated"], rv, per)
                    else:
                        var = vn[v["var"] % len(vn)]
                        pos = kind == "get_producers"
                        # coefficient per row; sign must be stable to define the partition
                        coefs = [[exp_sto[si][ri].get(var, {}) for ri in range(nrows[si])] for si in range(nseg)]
                        fl = sorted({f for sg in coefs for r_ in sg for f in r_})
                        signs = {}
                        stable = True
                        for f in fl:
                            sg_ = {np.sign(r_[f]) for sg in coefs for r_ in sg}
                            if len(sg_) != 1 or 0.0 in sg_:
                                stable = False
                            signs[f] = sg_.pop()
                        if not stable:
                            out.classes.append("producers-skipped-sign-unstable")
                            continue
                        names = [f for f in _names(ref0, spec, {"include_reactions": True, "include_surrogate_fluxes": True}) if f in signs and ((signs[f] > 0) == pos)]
                        statedep = "state_dependent_coefficient" in feats
                        got = res.get_producers(var, scaled=v["scaled"], concatenated=v["concatenated"], normalise=na) if pos else res.get_consumers(var, scaled=v["scaled"], concatenated=v["concatenated"], normalise=na)

                        def pv_(si, ri, nme, pos=pos, scaled=v["scaled"], coefs=coefs):
                            x = exp_all[si][ri][nme]
                            if scaled:
                                c = coefs[si][ri][nme]
                                x = x * (c if pos else -c)
                            return x, 0.0

                        check_frames(f"{kind}[scaled={v['scaled']},{'state-dependent' if statedep else 'static'}-coef,{'per-row-normalisation' if v['norm'] == 'row' else 'norm'}]" + ("" if rep == 0 else ":second-read"), got, names, v["concatenated"], pv_, per)
            except Exception as e:  # noqa: BLE001
                extra = ""
                if kind in ("get_producers", "get_consumers"):
                    var = vn[v["var"] % len(vn)]
                    extra = ":untouched-variable" if not any(var in r_ for sg in exp_sto for r_ in sg) else ""
                out.bad(f"{kind}:raises:{type(e).__name__}[{'per-row-normalisation' if v.get('norm') == 'row' else 'norm'}]{extra}", error=repr(e)[:200])
                break

    # N*v = dx/dt on the reported views
    try:
        fl = res.get_fluxes(concatenated=False)
        rh = res.get_right_hand_side(concatenated=False)
        for si in range(nseg):
            flr = fl[si].to_dict("records")
            rhr = rh[si].to_dict("records")
            for ri in range(nrows[si]):
                sto = exp_sto[si][ri]
                for var in vn:
                    tot = sum(c * float(flr[ri][f]) for f, c in sto.get(var, {}).items())
                    sc = sum(abs(c * float(flr[ri][f])) for f, c in sto.get(var, {}).items())
                    if not close(tot, float(rhr[ri][var]), sc):
                        out.bad("Nv-differs-from-reported-derivative", seg=si, row=ri, var=var, Nv=tot, reported=float(rhr[ri][var]))
                        raise StopIteration
    except StopIteration:
        pass
    except Exception as e:  # noqa: BLE001
        out.bad(f"Nv-check:raises:{type(e).__name__}", error=repr(e)[:200])

    if nseg >= 2 and params_differ and len(views_read) >= 3:
        out.nontrivial = [gm.structure_key(spec), nrows, [(v["view"], v.get("norm"), v.get("concatenated")) for v in case["views"]]]
    out.sample = {"segments": [{"rows": nrows[i], "params": seg_params[i]} for i in range(nseg)], "views": case["views"], "spec_kinds": [d[0] for d in spec["decls"]]}
    return out


def floors(ctx) -> list[str]:
    c = []
    for k in ["params_differ", "model_overwritten_afterwards", "feat:state_dependent_coefficient", "feat:readout", "mode:real"]:
        if ctx.classes.get(k, 0) < 5:
            c.append(f"class {k} only {ctx.classes.get(k, 0)}")
    return c
