"""C04 — continued simulation: absolute increasing time axis, piecewise-exact states."""

from __future__ import annotations

import numpy as np
from hypothesis import strategies as st

from vlib import linear
from vlib.core import Outcome

ID = "C04"
LEVEL = "exploration"
DESIGN_REF = "DESIGN.md section 5, C04"
RULE = (
    "Model-based generation of Simulator histories over linear compartmental networks x'=A(p)x+b(p) (1-3 variables, "
    "mass-action rates; one third with an influx k*time, i.e. a model that reads the absolute time): 2-10 operations from simulate(t_end, steps), simulate_time_course(points), simulate_protocol, "
    "simulate_protocol_time_course, update/scale_parameter, update_variable(s), simulate_to_steady_state, clear_results; "
    "end times and time points are drawn relative to the time already reached (later, much later, equal, earlier, "
    "overlapping). Oracle: augmented matrix exponential (own scaling-and-squaring Taylor implementation, cross-checked with scipy) from each segment's start state under the "
    "parameters in force, an abstract clock, and the refusal rule. Non-trivial: >=2 result-producing operations and at "
    "least one of override-after-simulation, parameter change between segments, steady state followed by another "
    "operation, illegal end time, overlapping time points; distinct by the sequence of (operation, context)."
)
ASSUMPTIONS = [
    "integrator rtol=atol=1e-8; rows compared at 1e-6*(1+|y|) (25x the worst deviation from expm seen in probes)",
    "time-axis membership is judged at 1e-13*(1+|t|) (float noise of shifting by the override time); protocol boundaries are computed with the same pandas Timedelta arithmetic the API documents",
    "after clear_results the first row is taken as given (the statement does not say which state a cleared simulator restarts from)",
    "steady state after a simulation is required to continue the absolute clock and be within 1e-4*(1+|x*|) of -A^-1 b",
]
TECHNIQUE = "model-based / stateful property testing of Simulator call histories against a closed-form (matrix exponential) oracle and an abstract clock"
LEVEL_TEXT = "Generated operation histories with illegal and boundary end times, compared row by row with the closed-form solution; histories shrink as one value."
LEVEL_NOTE = "Trusted: vlib.linear.expm (25-term Taylor, scaling and squaring), the abstract clock in this file; only linear networks (closed form) are explored."


def budget(tier: str) -> dict:
    if tier == "quick":
        return {"examples": 500}
    return {"examples": 1000, "shards": 16, "fuzz_seconds": 45}


# ----------------------------------------------------------------------
# generation

_dt = st.one_of(st.sampled_from([0.001, 0.5, 1.0, 2.0, 5.0]), st.integers(100, 200000).map(lambda i: i / 10000))
_rate = st.one_of(st.sampled_from([0.05, 0.25, 1.0, 2.0]), st.floats(0.05, 2.0, allow_nan=False, allow_subnormal=False))


@st.composite
def _proto_steps(draw):
    n = draw(st.integers(1, 3))
    keys = draw(st.lists(st.integers(0, 6), min_size=1, max_size=2, unique=True))
    steps = []
    for _ in range(n):
        dur_ms = draw(st.integers(100, 5000))
        steps.append([dur_ms / 1000.0, {str(k): draw(_rate) for k in keys}])
    return steps


@st.composite
def _op(draw):
    kind = draw(
        st.sampled_from(
            ["simulate"] * 4 + ["time_course"] * 4 + ["protocol"] + ["protocol_tc"] * 3 + ["update_parameter"] * 2
            + ["scale_parameter", "update_variable", "update_variable", "update_variables", "steady_state", "clear_results"]
        )
    )
    op = {"op": kind}
    if kind == "simulate":
        op["rel"] = draw(st.sampled_from(["later"] * 5 + ["much_later", "equal", "earlier"]))
        op["dt"] = draw(_dt)
        op["steps"] = draw(st.one_of(st.none(), st.integers(1, 6)))
    elif kind == "time_course":
        offs = draw(st.lists(st.one_of(st.integers(-8, 40).map(lambda i: i / 2), st.integers(-50000, 200000).map(lambda i: i / 10000)), min_size=1, max_size=6, unique=True))
        op["offsets"] = sorted(offs)
    elif kind == "protocol":
        op["steps"] = draw(_proto_steps())
        op["tps"] = draw(st.integers(1, 5))
    elif kind == "protocol_tc":
        op["steps"] = draw(_proto_steps())
        offs = draw(st.lists(st.integers(-4, 30).map(lambda i: i / 2), min_size=1, max_size=6, unique=True))
        if draw(st.booleans()):
            # ask for values exactly on step boundaries as well (the usual "every second, steps of 5 s")
            cum = 0
            for d_, _ in op["steps"]:
                cum += round(d_ * 1000)
                if draw(st.booleans()):
                    offs.append(cum / 1000.0)
            offs = sorted(set(offs))
            op["on_boundary"] = True
        op["offsets"] = sorted(offs)
        op["relative"] = draw(st.booleans())
    elif kind in ("update_parameter", "scale_parameter"):
        op["p"] = draw(st.integers(0, 8))
        op["value"] = draw(_rate)
        op["via"] = draw(st.sampled_from(["single", "plural"]))
    elif kind in ("update_variable", "update_variables"):
        op["i"] = draw(st.integers(0, 2))
        op["value"] = draw(st.integers(0, 40).map(lambda i: i / 4))
    return op


@st.composite
def _case(draw):
    lin = draw(linear.lin_strategy())
    n = draw(st.integers(2, 10))
    ops = [draw(_op()) for _ in range(n)]
    if draw(st.integers(0, 2)) == 0:
        # a model that reads `time` (x' = A x + b + c t): no steady state, every other operation applies
        lin = {**lin, "ramp": {str(draw(st.integers(0, lin["n"] - 1))): draw(st.sampled_from([0.25, 0.5, 1.0, 2.0]))}}
        for op in ops:
            if op["op"] == "steady_state":
                op.clear()
                op.update({"op": "simulate", "rel": "later", "dt": draw(_dt), "steps": draw(st.one_of(st.none(), st.integers(1, 6)))})
    return {"lin": lin, "ops": ops}


def strategy(tier: str):
    return _case()


# ----------------------------------------------------------------------


def _tclose(a: float, b: float) -> bool:
    # float noise only (MxlPy subtracts and re-adds the override time): legitimate distinct points
    # can be as close as one nanosecond (pandas Timedelta resolution)
    return abs(a - b) <= 1e-13 * (1.0 + abs(b))


class _Stop(Exception):
    pass


def examine(case: dict, ctx) -> Outcome:
    from mxlpy import Simulator, make_protocol
    from mxlpy.types import NoSteadyState

    out = Outcome()
    lin = case["lin"]
    m = linear.build(lin)
    pnames = linear.param_names(lin)
    vnames = linear.var_names(lin)
    n = lin["n"]
    sim = Simulator(m)

    params = dict(linear.params_of(lin))
    t = 0.0  # absolute time reached
    y: np.ndarray | None = np.array(lin["x0"], dtype=float)
    pend: dict[int, float] = {}
    nseg = 0  # segments seen so far
    fresh = True  # no result rows yet (fresh or cleared)
    trace: list = []
    ctxs: set[str] = set()
    nres = 0
    flags = {"override_after_sim": False, "param_change_between": False, "steady_then_op": False, "illegal_end": False, "overlap": False, "point_on_step_boundary_at_inexact_start": False}
    last_ctx = "plain"
    after_steady = False

    def bad(sig: str, **d):
        out.bad(sig, **d, step=len(trace))
        raise _Stop

    def fetch():
        r = sim.get_result()
        v = r.value
        if isinstance(v, Exception):
            return v
        return v

    def validate(opname: str, exp_segments: list[dict]):
        """exp_segments: [{"params": {...}, "must": [times that must appear], "count": n or None, "kind": ...}]"""
        nonlocal t, y, nseg, fresh, nres
        res = fetch()
        if isinstance(res, Exception):
            if isinstance(res, NoSteadyState) and opname == "steady_state":
                out.skipped = "no-steady-state-reported"
                raise _Stop
            bad(f"{opname}:{last_ctx}:result-is-failure:{type(res).__name__}")
        segs = res.raw_variables
        rps = res.raw_parameters
        if len(segs) != nseg + len(exp_segments) or len(rps) != len(segs):
            bad(f"{opname}:{last_ctx}:segment-count", got=len(segs), want=nseg + len(exp_segments), params=len(rps))
        for k, es in enumerate(exp_segments):
            df = segs[nseg + k]
            times = [float(x) for x in df.index]
            vals = df.to_numpy(dtype=float)
            if list(df.columns) != vnames:
                bad(f"{opname}:{last_ctx}:columns", got=list(df.columns))
            rows = list(zip(times, vals))
            A, b = linear.A_b(lin, es["params"])
            c = linear.ramp_vec(lin, es["params"])
            # start row of a fresh / cleared simulator
            if fresh and es.get("kind") == "steady":
                # a steady-state run reports only the steady state, no start row
                if y is None:
                    y = np.zeros(n)
                pend.clear()
                fresh = False
            if fresh:
                if not rows:
                    bad(f"{opname}:{last_ctx}:empty-first-segment")
                t0r, y0r = rows[0]
                if not _tclose(t0r, 0.0):
                    bad(f"{opname}:{last_ctx}:first-row-not-at-start", got=t0r)
                if y is not None:
                    if not np.allclose(y0r, y, rtol=0, atol=1e-9 * (1 + np.abs(y).max())):
                        bad(f"{opname}:{last_ctx}:start-state", got=y0r.tolist(), want=y.tolist())
                else:
                    for i, v in pend.items():
                        if abs(y0r[i] - v) > 1e-9 * (1 + abs(v)):
                            bad(f"{opname}:{last_ctx}:override-not-applied", var=i, got=float(y0r[i]), want=v)
                y = np.array(y0r, dtype=float)
                pend.clear()
                rows = rows[1:]
                fresh = False
            if es.get("kind") == "steady":
                if len(rows) != 1:
                    bad(f"{opname}:{last_ctx}:steady-rows", got=len(rows))
                ts, ys = rows[0]
                if not ts > t:
                    bad(f"{opname}:{last_ctx}:time-axis-not-increasing", prev=t, got=ts)
                xs = linear.steady_state(A, b)
                if not np.all(np.abs(ys - xs) <= 1e-4 * (1 + np.abs(xs).max())):
                    bad(f"{opname}:{last_ctx}:steady-state-value", got=ys.tolist(), want=xs.tolist())
                t, y = ts, np.array(ys, dtype=float)
                continue
            prev = t
            for tr, _ in rows:
                if not tr > prev:
                    bad(f"{opname}:{last_ctx}:time-axis-not-increasing", prev=prev, got=tr)
                prev = tr
            for must in es["must"]:
                hits = sum(1 for tr, _ in rows if _tclose(tr, must))
                if hits != 1:
                    bad(f"{opname}:{last_ctx}:requested-point-{'missing' if hits == 0 else 'repeated'}", point=must, index=[r[0] for r in rows][:12])
            if es.get("count") is not None and len(rows) != es["count"]:
                bad(f"{opname}:{last_ctx}:row-count", got=len(rows), want=es["count"])
            if es.get("only") is not None:
                for tr, _ in rows:
                    if not any(_tclose(tr, q) for q in es["only"]):
                        bad(f"{opname}:{last_ctx}:unrequested-point", point=tr, allowed=es["only"][:12])
            if not rows:
                bad(f"{opname}:{last_ctx}:no-new-rows")
            if not _tclose(rows[-1][0], es["end"]):
                bad(f"{opname}:{last_ctx}:segment-end", got=rows[-1][0], want=es["end"])
            for tr, yr in rows:
                want = linear.propagate(A, b, y, tr - t, c, t)
                if not np.all(np.abs(yr - want) <= 1e-6 * (1 + np.abs(want).max())):
                    bad(f"{opname}:{last_ctx}:state-not-exact-propagation" + (":model-reads-time" if np.any(c) else ""), time=tr, got=yr.tolist(), want=want.tolist(), start=y.tolist(), t_start=t)
            # parameters recorded for the segment
            rp = rps[nseg + k]
            for pn in pnames:
                if pn not in rp or abs(rp[pn] - es["params"][pn]) > 1e-12 * (1 + abs(es["params"][pn])):
                    bad(f"{opname}:{last_ctx}:raw_parameters", name=pn, got=rp.get(pn), want=es["params"][pn])
            t, y = rows[-1][0], np.array(rows[-1][1], dtype=float)
        nseg += len(exp_segments)
        nres += 1
        # whole axis
        idx = [float(x) for x in res.variables.index]
        if any(not b_ > a_ for a_, b_ in zip(idx, idx[1:])):
            bad(f"{opname}:{last_ctx}:concatenated-axis-not-increasing")

    try:
        for op in case["ops"]:
            k = op["op"]
            if after_steady and k not in ("clear_results",):
                flags["steady_then_op"] = True
            if k == "simulate":
                if op["rel"] in ("later", "much_later"):
                    t_end = t + op["dt"] * (10 if op["rel"] == "much_later" else 1)
                elif op["rel"] == "equal":
                    t_end = t
                else:
                    t_end = t - op["dt"]
                legal = t_end > t
                trace.append([k, op["rel"], last_ctx])
                if not legal:
                    flags["illegal_end"] = True
                try:
                    sim.simulate(t_end, steps=op["steps"])
                    raised = None
                except ValueError as e:
                    raised = e
                if legal and raised is not None:
                    bad(f"simulate:{last_ctx}:legal-continuation-refused", t_end=t_end, reached=t, error=str(raised))
                if not legal:
                    if raised is None:
                        bad(f"simulate:{last_ctx}:illegal-continuation-accepted:{op['rel']}", t_end=t_end, reached=t)
                    continue
                validate("simulate", [{"params": dict(params), "must": [t_end], "count": op["steps"], "end": t_end}])
                last_ctx = "plain"
                after_steady = False
            elif k == "time_course":
                pts = sorted({t + o for o in op["offsets"]})  # strictly increasing as floats
                legal = pts[-1] > t
                later = [p for p in pts if p > t]
                if any(p < t for p in pts) and legal:
                    flags["overlap"] = True
                if not legal:
                    flags["illegal_end"] = True
                trace.append([k, "legal" if legal else "illegal", "overlap" if any(p <= t for p in pts) else "ahead", last_ctx])
                try:
                    sim.simulate_time_course(np.array(pts, dtype=float))
                    raised = None
                except ValueError as e:
                    raised = e
                if legal and raised is not None:
                    bad(f"time_course:{last_ctx}:legal-continuation-refused", points=pts, reached=t, error=str(raised))
                if not legal:
                    if raised is None:
                        bad(f"time_course:{last_ctx}:illegal-continuation-accepted", points=pts, reached=t)
                    continue
                validate("time_course", [{"params": dict(params), "must": later, "only": later, "end": later[-1]}])
                last_ctx = "plain"
                after_steady = False
            elif k in ("protocol", "protocol_tc"):
                steps = [[d, {pnames[int(i) % len(pnames)]: v for i, v in pv.items()}] for d, pv in op["steps"]]
                proto = make_protocol([(d, pv) for d, pv in steps])
                # boundaries: time reached + the step's offset in seconds
                # (pandas: the scalar Timedelta.total_seconds() and the vectorised TimedeltaIndex.total_seconds() differ
                #  by up to 1e-6 s; each entry point is compared in the arithmetic it documents / uses)
                if k == "protocol":
                    bounds = [t + x.total_seconds() for x in proto.index]
                else:
                    bounds = [float(x) for x in (proto.index.total_seconds() + t)]
                if k == "protocol":
                    trace.append([k, len(steps), last_ctx])
                    try:
                        sim.simulate_protocol(proto, time_points_per_step=op["tps"])
                    except ValueError as e:
                        bad(f"protocol:{last_ctx}:legal-continuation-refused", error=str(e), reached=t)
                    exp = []
                    pcur = dict(params)
                    for (d, pv), bnd in zip(steps, bounds):
                        pcur = {**pcur, **pv}
                        exp.append({"params": dict(pcur), "must": [bnd], "count": op["tps"], "end": bnd})
                    params = pcur
                    validate("protocol", exp)
                else:
                    offs = op["offsets"]
                    pts_abs = [t + o for o in offs]
                    if len(set(pts_abs)) != len(pts_abs):
                        continue  # offsets collapse in float arithmetic: not an increasing grid
                    arg = np.array(offs if op["relative"] else pts_abs, dtype=float)
                    legal = pts_abs[-1] > t
                    trace.append([k, len(steps), "relative" if op["relative"] else "absolute", "legal" if legal else "illegal", last_ctx])
                    if op.get("on_boundary") and legal and t != round(t, 6):
                        flags["point_on_step_boundary_at_inexact_start"] = True
                    if not legal:
                        flags["illegal_end"] = True
                    try:
                        sim.simulate_protocol_time_course(proto, arg, time_points_as_relative=op["relative"])
                        raised = None
                    except ValueError as e:
                        raised = e
                    if legal and raised is not None:
                        bad(f"protocol_tc:{last_ctx}:legal-continuation-refused", error=str(raised), reached=t, points=pts_abs)
                    if not legal:
                        if raised is None:
                            bad(f"protocol_tc:{last_ctx}:illegal-continuation-accepted", points=pts_abs, reached=t)
                        continue
                    exp = []
                    pcur = dict(params)
                    lo = t
                    for (d, pv), bnd in zip(steps, bounds):
                        pcur = {**pcur, **pv}
                        inside = [p for p in pts_abs if p > lo and p <= bnd and not _tclose(p, bnd) and not _tclose(p, lo)]
                        allowed = inside + [bnd]
                        exp.append({"params": dict(pcur), "must": allowed, "only": allowed, "end": bnd})
                        lo = bnd
                    params = pcur
                    validate("protocol_tc", exp)
                last_ctx = "plain"
                after_steady = False
            elif k in ("update_parameter", "scale_parameter"):
                pn = pnames[op["p"] % len(pnames)]
                trace.append([k, last_ctx])
                if k == "update_parameter":
                    if op["via"] == "single":
                        sim.update_parameter(pn, op["value"])
                    else:
                        sim.update_parameters({pn: op["value"]})
                    params[pn] = op["value"]
                else:
                    if op["via"] == "single":
                        sim.scale_parameter(pn, op["value"])
                    else:
                        sim.scale_parameters({pn: op["value"]})
                    params[pn] = params[pn] * op["value"]
                if not fresh:
                    flags["param_change_between"] = True
                    last_ctx = "after_param_change" if last_ctx == "plain" else last_ctx
            elif k in ("update_variable", "update_variables"):
                i = op["i"] % n
                trace.append([k, last_ctx])
                if k == "update_variable":
                    sim.update_variable(vnames[i], op["value"])
                else:
                    sim.update_variables({vnames[i]: op["value"]})
                if y is not None:
                    y = y.copy()
                    y[i] = op["value"]
                else:
                    pend[i] = op["value"]
                if not fresh:
                    flags["override_after_sim"] = True
                    last_ctx = "after_override"
            elif k == "steady_state":
                trace.append([k, last_ctx])
                sim.simulate_to_steady_state()
                validate("steady_state", [{"params": dict(params), "kind": "steady"}])
                after_steady = True
                last_ctx = "after_steady"
            elif k == "clear_results":
                trace.append([k, last_ctx])
                sim.clear_results()
                t = 0.0
                y = None
                pend.clear()
                nseg = 0
                fresh = True
                last_ctx = "after_clear"
                after_steady = False
            ctxs.add(last_ctx)
    except _Stop:
        pass
    out.classes = [f"flag:{k}" for k, v in flags.items() if v] + [f"op:{x[0]}" for x in trace]
    if lin.get("ramp"):
        out.classes.append("time_dependent_model")
        if flags["override_after_sim"]:
            out.classes.append("time_dependent_model+override_after_sim")
    if nres >= 2 and any(flags.values()):
        out.nontrivial = trace
    out.sample = {"network": {k: lin[k] for k in ("n", "conv")}, "history": trace}
    return out


def floors(ctx) -> list[str]:
    c = []
    for k in ["flag:override_after_sim", "flag:param_change_between", "flag:steady_then_op", "flag:illegal_end", "flag:overlap", "flag:point_on_step_boundary_at_inexact_start", "time_dependent_model+override_after_sim"]:
        if ctx.classes.get(k, 0) < max(3, ctx.evaluations // (100 if "step_boundary" in k else 40)):
            c.append(f"class {k} only {ctx.classes.get(k, 0)}/{ctx.evaluations}")
    return c
