"""C15 — steady-state results are steady states; absence is reported as failure."""

from __future__ import annotations

import numpy as np
from hypothesis import strategies as st
from vlib.linear import expm

from vlib import linear
from vlib.core import Outcome

ID = "C15"
LEVEL = "exploration"
DESIGN_REF = "DESIGN.md section 5, C15"
RULE = (
    "Generated stable linear compartmental networks (1-3 variables, every compartment degrades, rate constants "
    "log-uniform in [1e-3, 5]) x tolerance in {1e-4..1e-8} x absolute/relative norm x default/user initial values, via "
    "Simulator.simulate_to_steady_state and via scan.steady_state rows; negative classes without a steady state "
    "(unbounded accumulation, exponential growth, undamped oscillation). Oracle: analytic fixed point -A^-1 b with a "
    "per-case error bound derived from the stop rule (||E(E-I)^-1||*tol, E=expm(100A)) plus the LSODA floor; failure "
    "value required for the negative classes. Non-trivial: slowest relaxation time >= 50 time units (state at t=200 is "
    "not yet converged) or a negative class; distinct by (structure, tolerance, norm, y0 kind, class)."
)
ASSUMPTIONS = [
    "stop rule is 'change over one 100-unit step < tolerance'; permitted distance = 10*(||E(E-I)^-1||_2*tol_eff + 1e-6*(1+||x*||))",
    "relative norm: tol_eff = tol*max|x*| (the rule bounds delta/y); cases where the search reports failure are counted, not judged",
    "default integrator is scipy LSODA (assimulo absent)",
]
TECHNIQUE = "property-based testing against an analytic steady state with a tolerance bound derived from the stop rule; negative classes must yield the failure value"
LEVEL_TEXT = "Generated-input search over stable linear networks with slow and fast relaxation, both norms and tolerances, plus no-steady-state classes; every success is compared with the analytic fixed point."
LEVEL_NOTE = "Trusted: numpy.linalg / vlib.linear.expm for the analytic oracle; bound has a safety factor 10."


def budget(tier: str) -> dict:
    if tier == "quick":
        return {"examples": 240}
    return {"examples": 960, "shards": 16, "fuzz_seconds": 45}


_lograte = st.one_of(
    st.sampled_from([0.001, 0.003, 0.01, 0.02, 0.05, 0.2, 1.0, 5.0]),
    st.floats(-3, 0.7, allow_nan=False).map(lambda e: round(10.0**e, 6)),
)


@st.composite
def _lin(draw):
    n = draw(st.integers(1, 3))
    x0 = [draw(st.integers(0, 40).map(lambda i: i / 4)) for _ in range(n)]
    influx = {"0": draw(_lograte)}
    for i in range(1, n):
        if draw(st.integers(0, 3)) > 0:
            influx[str(i)] = draw(_lograte)
    deg = {str(i): draw(_lograte) for i in range(n)}
    conv = []
    if n > 1:
        pairs = [(i, j) for i in range(n) for j in range(n) if i != j]
        chosen = draw(st.lists(st.sampled_from(pairs), min_size=0, max_size=3, unique=True))
        conv = [[i, j, draw(_lograte)] for i, j in chosen]
    return {"n": n, "x0": x0, "influx": influx, "deg": deg, "conv": conv}


@st.composite
def _case(draw, kinds=("sim", "scan", "accumulate", "growth")):
    kind = draw(st.sampled_from(list(kinds)))
    # the undamped-oscillation class costs ~10 s per case and is enumerated separately (enumerate_cases)
    lin = draw(_lin())
    case = {
        "kind": kind,
        "lin": lin,
        "tol": draw(st.sampled_from([1e-4, 1e-5, 1e-6, 1e-7, 1e-8])),
        "rel_norm": draw(st.booleans()),
        "y0": draw(st.one_of(st.none(), st.lists(st.integers(0, 80).map(lambda i: i / 4), min_size=3, max_size=3))),
        "pre_run": draw(st.sampled_from([None, None, 0.5, 3.0])),
    }
    if kind == "scan":
        # scan one rate constant over 2-4 values, some of which (0.0 for a degradation) remove the steady state
        case["scan_values"] = [draw(st.sampled_from([0.0, 0.0, 0.01, 0.05, 0.5, 2.0])) for _ in range(draw(st.integers(2, 4)))]
        case["rel_norm"] = draw(st.booleans())
    if kind == "oscillate":
        case["w"] = draw(st.sampled_from([1.0, 0.3, 2.0]))
    if kind == "growth":
        case["g"] = draw(st.sampled_from([0.001, 0.01, 0.05]))
    return case


def strategy(tier: str):
    return _case()


def strategies(tier: str):
    f = 1 if tier == "quick" else 4
    return [
        ("sim", _case(kinds=("sim",)), 150 * f),
        ("scan", _case(kinds=("scan",)), 50 * f),
        ("accumulate", _case(kinds=("accumulate",)), 25 * f),
        ("growth", _case(kinds=("growth",)), 15 * f),
    ]


def enumerate_cases(tier: str, shard: int, nshards: int, ctx):
    """Undamped oscillators (period incommensurate with the 100-unit step): ~10 s each, so a fixed small set."""
    lin = {"n": 1, "x0": [1.0], "influx": {"0": 1.0}, "deg": {"0": 1.0}, "conv": []}
    combos = [(1.0, False, 1e-6), (0.3, True, 1e-4), (2.0, False, 1e-8), (1.0, True, 1e-6), (0.3, False, 1e-4), (2.0, True, 1e-5)]
    if tier == "quick":
        combos = combos[:2]
    for i, (w, rel, tol) in enumerate(combos):
        if i % nshards == shard:
            yield {"kind": "oscillate", "lin": lin, "tol": tol, "rel_norm": rel, "y0": None, "w": w}


def _osc_x(x, y, w):
    return -w * y


def _osc_y(x, y, w):
    return w * x


def _bound(A, b, tol, rel_norm):
    xs = linear.steady_state(A, b)
    E = expm(100.0 * A)
    G = E @ np.linalg.inv(E - np.eye(len(A)))
    g = float(np.linalg.norm(G, 2))
    tol_eff = tol * (float(np.max(np.abs(xs))) if rel_norm else 1.0)
    return xs, 10.0 * (g * tol_eff + 1e-6 * (1.0 + float(np.linalg.norm(xs))))


def _relax_time(A):
    lam = -float(np.max(np.real(np.linalg.eigvals(A))))
    return 1.0 / lam


def examine(case: dict, ctx) -> Outcome:
    import pandas as pd
    from mxlpy import Model, Simulator, scan

    out = Outcome()
    kind = case["kind"]
    lin = case["lin"]
    tol, rel = case["tol"], case["rel_norm"]
    n = lin["n"]
    vn = linear.var_names(lin)
    key = [kind, n, len(lin["conv"]), tol, rel, case["y0"] is not None]

    def stoich_net(res_fluxes: dict, params_lin: dict) -> np.ndarray:
        net = np.zeros(n)
        for i in lin["influx"]:
            net[int(i)] += res_fluxes[f"vin{i}"]
        for i in lin["deg"]:
            net[int(i)] -= res_fluxes[f"vd{i}"]
        for i, j, _ in lin["conv"]:
            net[i] -= res_fluxes[f"vc{i}_{j}"]
            net[j] += res_fluxes[f"vc{i}_{j}"]
        return net

    if kind in ("sim", "accumulate", "growth"):
        lin2 = dict(lin)
        p = linear.params_of(lin)
        if kind == "accumulate":
            # compartment 0 keeps its influx but loses every outflow
            lin2 = {**lin, "deg": {k: v for k, v in lin["deg"].items() if k != "0"}, "conv": [c for c in lin["conv"] if c[0] != 0]}
            p = linear.params_of(lin2)
        m = linear.build(lin2)
        if kind == "growth":
            m.update_parameter("kd0", -case["g"])  # x0' = +g x0 + influx: exponential growth
            m.update_parameters({f"kc{i}_{j}": 0.0 for i, j, _ in lin2["conv"] if i == 0})
        y0 = None if case["y0"] is None else dict(zip(vn, case["y0"][:n]))
        sim = Simulator(m, y0=y0)
        if case.get("pre_run"):
            # an ordinary, successful simulation first: the search then continues from there, and a failed
            # search must still be reported as a failure
            sim.simulate(case["pre_run"], steps=3)
            key.append("pre_run")
        r = sim.simulate_to_steady_state(tolerance=tol, rel_norm=rel).get_result()
        v = r.value
        out.classes = [kind, "rel_norm" if rel else "abs_norm", "user_y0" if y0 else "default_y0", f"tol={tol:g}"] + (["pre_run"] if case.get("pre_run") else [])
        if kind != "sim":
            out.nontrivial = key
            if not isinstance(v, Exception):
                got = v.variables.iloc[-1].to_dict()
                out.bad(f"{kind}:{'rel' if rel else 'abs'}:state-presented-as-steady{':after-pre-run' if case.get('pre_run') else ''}", got=got, time=float(v.variables.index[-1]))
            return out
        A, b = linear.A_b(lin, p)
        tau = _relax_time(A)
        out.classes.append("slow(tau>=50)" if tau >= 50 else "fast")
        if tau >= 50:
            out.nontrivial = key + [round(np.log10(tau), 1)]
        if isinstance(v, Exception):
            out.skipped = f"search-reported-failure:{type(v).__name__}"
            out.classes.append("reported-failure")
            return out
        xs, bound = _bound(A, b, tol, rel)
        got = v.variables.iloc[-1][vn].to_numpy(dtype=float)
        err = float(np.linalg.norm(got - xs))
        if not err <= bound:
            out.bad(f"sim:{'rel' if rel else 'abs'}:{'slow' if tau >= 50 else 'fast'}:not-a-steady-state", got=got.tolist(), want=xs.tolist(), err=err, bound=bound, tau=tau)
        fl = v.fluxes.iloc[-1].to_dict()
        net = stoich_net(fl, lin)
        if not float(np.linalg.norm(net)) <= float(np.linalg.norm(A, 2)) * bound + 1e-12:
            out.bad(f"sim:{'rel' if rel else 'abs'}:fluxes-do-not-balance", net=net.tolist(), bound=float(np.linalg.norm(A, 2)) * bound)
        return out

    if kind == "oscillate":
        w = case["w"]
        m = (
            Model()
            .add_parameter("w", w)
            .add_variable("x", 1.0)
            .add_variable("y", 0.0)
            .add_reaction("rx", _osc_x, args=["x", "y", "w"], stoichiometry={"x": 1})
            .add_reaction("ry", _osc_y, args=["x", "y", "w"], stoichiometry={"y": 1})
        )
        r = Simulator(m).simulate_to_steady_state(tolerance=tol, rel_norm=rel).get_result()
        out.classes = [kind, "rel_norm" if rel else "abs_norm"]
        out.nontrivial = key + [w]
        if not isinstance(r.value, Exception):
            out.bad(f"oscillate:{'rel' if rel else 'abs'}:state-presented-as-steady", got=r.value.variables.iloc[-1].to_dict())
        return out

    # scan rows
    m = linear.build(lin)
    p0 = linear.params_of(lin)
    vals = case["scan_values"]
    table = pd.DataFrame({"kd0": vals})
    has_out0 = any(c[0] == 0 for c in lin["conv"])
    res = scan.steady_state(m, to_scan=table, parallel=False, rel_norm=rel)
    vs = res.variables
    fs = res.fluxes
    out.classes = ["scan", "rel_norm" if rel else "abs_norm"]
    nontriv = False
    if len(vs) != len(vals):
        out.bad("scan:row-count", got=len(vs), want=len(vals))
        return out
    for i, kd in enumerate(vals):
        p = {**p0, "kd0": kd}
        A, b = linear.A_b(lin, p)
        row = vs.iloc[i][vn].to_numpy(dtype=float)
        singular = kd == 0.0 and not has_out0
        if singular:
            nontriv = True
            out.classes.append("scan-row-without-steady-state")
            if not np.all(np.isnan(row)):
                out.bad(f"scan:{'rel' if rel else 'abs'}:row-without-steady-state-not-NaN", row=row.tolist(), kd0=kd)
            continue
        tau = _relax_time(A)
        if tau >= 50:
            nontriv = True
        if np.all(np.isnan(row)):
            out.classes.append("scan-row-reported-failure")
            continue
        xs, bound = _bound(A, b, 1e-6, rel)  # scan uses the default tolerance
        err = float(np.linalg.norm(row - xs))
        if not err <= bound:
            out.bad(f"scan:{'rel' if rel else 'abs'}:row-not-a-steady-state", row=row.tolist(), want=xs.tolist(), err=err, bound=bound, kd0=kd)
        net = stoich_net(fs.iloc[i].to_dict(), lin)
        if not float(np.linalg.norm(net)) <= float(np.linalg.norm(A, 2)) * bound + 1e-12:
            out.bad(f"scan:{'rel' if rel else 'abs'}:row-fluxes-do-not-balance", net=net.tolist())
    if nontriv:
        out.nontrivial = key + [vals]
    return out


def floors(ctx) -> list[str]:
    c = []
    for k in ["sim", "scan", "accumulate", "growth", "slow(tau>=50)", "rel_norm", "abs_norm", "user_y0", "scan-row-without-steady-state"]:
        if ctx.classes.get(k, 0) < 3:
            c.append(f"class {k} only {ctx.classes.get(k, 0)}")
    return c
