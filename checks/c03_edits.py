"""C03 — edit histories: answers depend only on the model's current content.

Histories are generated as plain data (a list of operations whose targets are
selectors resolved against the abstract content at interpretation time), so a
whole history shrinks and replays as one JSON value.  The abstract content model
mirrors the documented semantics of every public mutator; after (drawn) steps
the edited model is compared with a model freshly built from the content.
"""

from __future__ import annotations

import copy

from hypothesis import strategies as st

from vlib import gen_models as gm
from vlib.core import Outcome
from vlib.spec import build, close

ID = "C03"
LEVEL = "exploration"
DESIGN_REF = "DESIGN.md section 5, C03"
RULE = (
    "Model-based generation of edit histories: a small generated start model followed by 1-25 operations drawn from "
    "every public mutator (add/update/remove/scale parameters, variables, derived, reactions, readouts, surrogates, "
    "data; make_parameter_dynamic / make_variable_static; plural forms) with valid, fresh, duplicate, unknown, "
    "other-kind and 'time' targets, interleaved with queries that populate the cache. After drawn steps and at the end "
    "the edited model is compared (ids, names per kind, parameter values, initial conditions, full argument table incl. "
    "readouts, right-hand side, derived-parameter names; or the raised exception type) with a model freshly built from "
    "the abstract content. Non-trivial: the history contains query -> mutator -> query; distinct by the sequence of "
    "(operation, target mode, after-query flag)."
)
ASSUMPTIONS = [
    "abstract semantics of the mutators are taken from their docstrings (add appends, update keeps position, remove needs the name in that container)",
    "an invalid edit must raise (any exception) and leave the model equal to a fresh build of the unchanged content",
    "an edit naming an unknown component that MxlPy accepts is only required to keep one consistent name space",
]
TECHNIQUE = "model-based / stateful property testing: generated operation histories interpreted against an abstract content model, invariant = equality with a freshly built model"
LEVEL_TEXT = "Generated operation histories (stateful, shrinkable as one value) over all public mutators incl. invalid targets, compared step-wise with a from-scratch model; coverage matrix mutator x {after query, not after query} is reported."
LEVEL_NOTE = "Trusted: the abstract content semantics in this file (derived from docstrings) and the fresh-build comparison; Model queries of a fresh model are decided by C01/C13."

KINDS = ["parameter", "variable", "derived", "reaction", "readout", "surrogate", "data"]
POOL = [f"n{i}" for i in range(14)]


def budget(tier: str) -> dict:
    if tier == "quick":
        return {"examples": 600}
    return {"examples": 1500, "shards": 16}


# ----------------------------------------------------------------------
# abstract content


def content_from_spec(spec: dict) -> dict:
    c = {k: {} for k in KINDS}
    for k, n, p in spec["decls"]:
        c[k][n] = copy.deepcopy(p)
    return c


def spec_from_content(c: dict) -> dict:
    decls = []
    for k in KINDS:
        for n, p in c[k].items():
            decls.append([k, n, copy.deepcopy(p)])
    return {"decls": decls}


def ids_of(c: dict) -> dict[str, str]:
    out: dict[str, str] = {}
    for k in KINDS:
        for n, p in c[k].items():
            out[n] = k
            if k == "surrogate":
                for o in p["outputs"]:
                    out[o] = "surrogate"
    return out


def flux_names(c: dict) -> list[str]:
    names = list(c["reaction"])
    for p in c["surrogate"].values():
        names.extend(p["stoich"])
    return names


class Reject(Exception):
    pass


def fresh_name(c: dict, skip: int = 0) -> str:
    ids = ids_of(c)
    free = [n for n in POOL if n not in ids]
    if len(free) > skip:
        return free[skip]
    j = 0
    extra = []
    while len(extra) <= skip:
        if f"m{j}" not in ids:
            extra.append(f"m{j}")
        j += 1
    return extra[skip]


def resolve_target(c: dict, kind: str, sel: dict) -> tuple[str, str]:
    """-> (name, effective mode) for an operation on an existing component of `kind`."""
    mode, i = sel["mode"], sel["i"]
    names = list(c[kind])
    if mode == "valid" and names:
        return names[i % len(names)], "valid"
    if mode == "otherkind":
        others = [n for n, k in ids_of(c).items() if n not in c[kind]]
        if others:
            return others[i % len(others)], "otherkind"
    return "ghost", "unknown"


def resolve_new(c: dict, sel: dict) -> tuple[str, str]:
    mode, i = sel["mode"], sel["i"]
    if mode == "duplicate":
        ex = list(ids_of(c))
        if ex:
            return ex[i % len(ex)], "duplicate"
    if mode == "time":
        return "time", "time"
    return fresh_name(c, 0), "fresh"


def arg_pool(c: dict, wide: bool) -> list[str]:
    base = list(c["parameter"]) + list(c["variable"]) + ["time"]
    if wide:
        base += list(c["derived"]) + flux_names(c)
        for p in c["surrogate"].values():
            base += [o for o in p["outputs"] if o not in p["stoich"]]
    return base


def resolve_args(c: dict, idx: list[int], wide: bool, exclude: str | None = None) -> list[str]:
    pool = [a for a in arg_pool(c, wide) if a != exclude]
    if not pool:
        pool = ["time"]
    return [pool[i % len(pool)] for i in idx]


def resolve_stoich(c: dict, st_: list[list]) -> dict:
    vs = list(c["variable"])
    if not vs:
        return {}
    out = {}
    for i, coef in st_:
        out[vs[i % len(vs)]] = coef
    return out


# ----------------------------------------------------------------------
# operations: each returns (callable on real model, callable on abstract content -> None or raises Reject, label mode)


def plan(c: dict, op: dict):
    """Resolve an operation against content `c`.

    Returns (name_of_mutator, mode, real_call(m), abstract_apply(c)).  abstract_apply raises
    Reject when the documented precondition fails.
    """
    from mxlpy.surrogates.abstract import MockSurrogate
    from mxlpy.types import InitialAssignment

    import pandas as pd

    from vlib import fnlib
    from vlib.spec import _coef

    o = op["op"]
    ids = ids_of(c)

    def val_payload(v):
        # v is either a number or {"ia": {...idx}}
        if isinstance(v, dict):
            args = resolve_args(c, v["args"], v["wide"])
            return {"ia": {"fn": v["fn"], "args": args}}
        return {"value": v}

    def real_val(p):
        if "ia" in p:
            return InitialAssignment(fn=fnlib.make(p["ia"]["fn"]), args=list(p["ia"]["args"]))
        return p["value"]

    def new_check(name):
        if name == "time" or name in ids:
            raise Reject

    # --- parameters / variables ---------------------------------------
    if o in ("add_parameter", "add_variable"):
        kind = o.split("_")[1]
        name, mode = resolve_new(c, op["t"])
        p = val_payload(op["v"])

        def real(m):
            getattr(m, o)(name, real_val(p))

        def ab(c2):
            new_check(name)
            c2[kind][name] = p

        return o, mode, real, ab
    if o in ("add_parameters", "add_variables"):
        kind = o.split("_")[1][:-1]
        n1 = fresh_name(c, 0)
        n2 = fresh_name(c, 1)
        vals = {n1: op["v"], n2: op["v2"]}

        def real(m):
            getattr(m, o)(dict(vals))

        def ab(c2):
            for n, v in vals.items():
                c2[kind][n] = {"value": v}

        return o, "fresh", real, ab
    if o in ("remove_parameter", "remove_variable", "remove_derived", "remove_reaction", "remove_readout", "remove_data"):
        kind = o.split("_")[1]
        name, mode = resolve_target(c, kind, op["t"])
        rs = op.get("remove_stoichiometries", True)

        def real(m):
            if o == "remove_variable":
                m.remove_variable(name, remove_stoichiometries=rs)
            else:
                getattr(m, o)(name)

        def ab(c2):
            if name not in c2[kind]:
                raise Reject
            del c2[kind][name]
            if kind == "variable" and rs:
                _strip_var(c2, name)

        return (o + ("" if rs or kind != "variable" else "[keep_stoich]")), mode, real, ab
    if o in ("remove_parameters", "remove_variables"):
        kind = o.split("_")[1][:-1]
        names = list(c[kind])[:2]
        if not names:
            names = ["ghost"]

        def real(m):
            getattr(m, o)(list(names))

        def ab(c2):
            if names == ["ghost"]:
                raise Reject
            for n in names:
                del c2[kind][n]
                if kind == "variable":
                    _strip_var(c2, n)

        return o, "valid" if names != ["ghost"] else "unknown", real, ab
    if o in ("update_parameter", "update_variable"):
        kind = o.split("_")[1]
        name, mode = resolve_target(c, kind, op["t"])
        p = val_payload(op["v"])

        def real(m):
            getattr(m, o)(name, real_val(p))

        def ab(c2):
            if name not in c2[kind]:
                raise Reject
            c2[kind][name] = p

        return o, mode, real, ab
    if o in ("update_parameters", "update_variables"):
        kind = o.split("_")[1][:-1]
        names = list(c[kind])[:2]
        if not names:
            names = ["ghost"]
        vals = dict(zip(names, [op["v"], op["v2"]]))

        def real(m):
            getattr(m, o)(dict(vals))

        def ab(c2):
            if names == ["ghost"]:
                raise Reject
            for n, v in vals.items():
                c2[kind][n] = {"value": v}

        return o, "valid" if names != ["ghost"] else "unknown", real, ab
    if o in ("scale_parameter", "scale_parameters"):
        name, mode = resolve_target(c, "parameter", op["t"])
        f = op["factor"]

        def real(m):
            if o == "scale_parameter":
                m.scale_parameter(name, f)
            else:
                m.scale_parameters({name: f})

        def ab(c2):
            if name not in c2["parameter"]:
                raise Reject
            p = c2["parameter"][name]
            if "ia" in p:
                from vlib.spec import Ref

                try:
                    cur = Ref(spec_from_content(c2)).initial()[name]
                except Exception as e:  # noqa: BLE001 - unresolvable content: the real call must fail too
                    raise Reject from e
                c2["parameter"][name] = {"value": cur * f}
            else:
                c2["parameter"][name] = {"value": p["value"] * f}

        return o, mode, real, ab
    if o == "make_parameter_dynamic":
        name, mode = resolve_target(c, "parameter", op["t"])
        iv = op.get("initial_value")
        fl = flux_names(c)
        sto = None
        smode = ""
        if op.get("stoich") is not None:
            sto = {}
            for i, coef, bad in op["stoich"]:
                if bad or not fl:
                    sto["ghost_rxn"] = coef
                    smode = "+unknown_reaction"
                else:
                    sto[fl[i % len(fl)]] = coef

        def real(m):
            m.make_parameter_dynamic(name, initial_value=iv, stoichiometries=None if sto is None else dict(sto))

        def ab(c2):
            if name not in c2["parameter"] or (sto is not None and "ghost_rxn" in sto):
                raise Reject
            p = c2["parameter"].pop(name)
            c2["variable"][name] = p if iv is None else {"value": iv}
            for rn, coef in (sto or {}).items():
                if rn in c2["reaction"]:
                    c2["reaction"][rn]["stoich"][name] = coef
                else:
                    for sp in c2["surrogate"].values():
                        if rn in sp["stoich"]:
                            sp["stoich"][rn][name] = coef

        return o + smode, mode, real, ab
    if o == "make_variable_static":
        name, mode = resolve_target(c, "variable", op["t"])
        v = op.get("value")

        def real(m):
            m.make_variable_static(name, value=v)

        def ab(c2):
            if name not in c2["variable"]:
                raise Reject
            p = c2["variable"].pop(name)
            _strip_var(c2, name)
            c2["parameter"][name] = p if v is None else {"value": v}

        return o, mode, real, ab
    # --- derived / readouts ---------------------------------------------
    if o in ("add_derived", "add_readout"):
        kind = o.split("_")[1]
        name, mode = resolve_new(c, op["t"])
        args = resolve_args(c, op["args"], op["wide"] or kind == "readout", exclude=name)
        fd = op["fn"]

        def real(m):
            getattr(m, o)(name, fnlib.make(fd), args=list(args))

        def ab(c2):
            new_check(name)
            c2[kind][name] = {"fn": fd, "args": args}

        return o, mode, real, ab
    if o == "update_derived":
        name, mode = resolve_target(c, "derived", op["t"])
        which = op["which"]  # fn / args / both
        old_n = len(c["derived"][name]["args"]) if name in c["derived"] else len(op["args"])
        idx = op["args"]
        if which in ("fn", "args"):
            idx = ((idx or [0]) * 4)[:old_n] if old_n else []
        args = resolve_args(c, idx, op["wide"], exclude=name)
        fd = dict(op["fn"])
        if which in ("fn", "args"):
            fd = _refit(fd, old_n)

        def real(m):
            kw = {}
            if which in ("fn", "both"):
                kw["fn"] = fnlib.make(fd)
            if which in ("args", "both"):
                kw["args"] = list(args)
            m.update_derived(name, **kw)

        def ab(c2):
            if name not in c2["derived"]:
                raise Reject
            p = c2["derived"][name]
            if which in ("fn", "both"):
                p["fn"] = fd
            if which in ("args", "both"):
                p["args"] = args

        return f"update_derived[{which}]", mode, real, ab
    # --- reactions -----------------------------------------------------------
    if o == "add_reaction":
        name, mode = resolve_new(c, op["t"])
        args = resolve_args(c, op["args"], op["wide"], exclude=name)
        fd = op["fn"]
        sto = resolve_stoich(c, op["stoich"])

        def real(m):
            m.add_reaction(name, fnlib.make(fd), args=list(args), stoichiometry={k: _coef(v) for k, v in sto.items()})

        def ab(c2):
            new_check(name)
            c2["reaction"][name] = {"fn": fd, "args": args, "stoich": dict(sto)}

        return o, mode, real, ab
    if o == "update_reaction":
        name, mode = resolve_target(c, "reaction", op["t"])
        which = op["which"]  # subset of fn,args,stoich encoded as string
        old_n = len(c["reaction"][name]["args"]) if name in c["reaction"] else len(op["args"])
        idx = op["args"]
        both = "fn" in which and "args" in which
        if not both:
            idx = ((idx or [0]) * 4)[:old_n] if old_n else []
        args = resolve_args(c, idx, op["wide"], exclude=name)
        fd = dict(op["fn"]) if both else _refit(dict(op["fn"]), old_n)
        sto = resolve_stoich(c, op["stoich"])

        def real(m):
            kw = {}
            if "fn" in which:
                kw["fn"] = fnlib.make(fd)
            if "args" in which:
                kw["args"] = list(args)
            if "stoich" in which:
                kw["stoichiometry"] = {k: _coef(v) for k, v in sto.items()}
            m.update_reaction(name, **kw)

        def ab(c2):
            if name not in c2["reaction"]:
                raise Reject
            p = c2["reaction"][name]
            if "fn" in which:
                p["fn"] = fd
            if "args" in which:
                p["args"] = args
            if "stoich" in which:
                p["stoich"] = dict(sto)

        return f"update_reaction[{which}]", mode, real, ab
    # --- surrogates -----------------------------------------------------------
    if o == "add_surrogate":
        name, mode = resolve_new(c, op["t"])
        k = op["k"]
        c_tmp_ids = set(ids) | {name}
        free = [n for n in POOL if n not in c_tmp_ids]
        outs = free[:k] if len(free) >= k else [f"zo{j}" for j in range(k)]
        omode = ""
        clash = op.get("clash_output")
        if clash is True:
            clash = "existing"
        if clash == "existing" and ids:
            outs = [*outs[:-1], list(ids)[op["t"]["i"] % len(ids)]]
            omode = "+clashing_output"
        elif clash == "time":
            outs = [*outs[:-1], "time"]  # fails only after the surrogate name (and earlier outputs) went in
            omode = "+clashing_output"
        elif clash == "duplicate":
            outs = [*outs, outs[0]]
            k = len(outs)
            omode = "+clashing_output"
        elif clash == "own_name":
            outs = [*outs[:-1], name]
            omode = "+clashing_output"
        args = resolve_args(c, op["args"], op["wide"], exclude=name)
        args = [a for a in args if a not in outs] or ["time"]
        fd = _refit_multi(op["fn"], len(args), k)
        sto = {}
        for j, stl in op["stoich"]:
            sto[outs[j % k]] = resolve_stoich(c, stl)
        via_kwargs = op.get("via_kwargs", False)

        def real(m):
            st_real = {o_: {kk: _coef(v) for kk, v in d.items()} for o_, d in sto.items()}
            if via_kwargs:
                s = MockSurrogate(fn=fnlib.make(fd), args=[], outputs=[], stoichiometries={})
                m.add_surrogate(name, s, args=list(args), outputs=list(outs), stoichiometries=st_real)
            else:
                s = MockSurrogate(fn=fnlib.make(fd), args=list(args), outputs=list(outs), stoichiometries=st_real)
                m.add_surrogate(name, s)

        def ab(c2):
            new_check(name)
            seen = {name}
            for o_ in outs:
                if o_ == "time" or o_ in ids or o_ in seen:
                    raise Reject
                seen.add(o_)
            c2["surrogate"][name] = {"fn": fd, "args": args, "outputs": list(outs), "stoich": copy.deepcopy(sto)}

        return o + omode, mode, real, ab
    if o == "update_surrogate":
        name, mode = resolve_target(c, "surrogate", op["t"])
        which = op["which"]  # args / stoich / outputs / object
        cur = c["surrogate"].get(name)
        if cur is None:

            def real(m):
                m.update_surrogate(name, args=["time"])

            def ab(c2):
                raise Reject

            return f"update_surrogate[{which}]", mode, real, ab
        k = len(cur["outputs"])
        n_old = len(cur["args"])
        if which == "args":
            args = resolve_args(c, ((op["args"] or [0]) * 4)[:n_old], op["wide"], exclude=name)
            args = [a if a not in cur["outputs"] else "time" for a in args]

            def real(m):
                m.update_surrogate(name, args=list(args))

            def ab(c2):
                c2["surrogate"][name]["args"] = args

        elif which == "stoich":
            sto = {}
            for j, stl in op["stoich"]:
                sto[cur["outputs"][j % k]] = resolve_stoich(c, stl)

            def real(m):
                m.update_surrogate(name, stoichiometries={o_: {kk: _coef(v) for kk, v in d.items()} for o_, d in sto.items()})

            def ab(c2):
                c2["surrogate"][name]["stoich"] = copy.deepcopy(sto)

        elif which == "outputs":
            free = [n for n in POOL if n not in ids]
            new_outs = free[:k] if len(free) >= k else [f"zo{j}" for j in range(k)]
            ren = dict(zip(cur["outputs"], new_outs))
            sto = {ren[o_]: d for o_, d in cur["stoich"].items()}

            def real(m):
                m.update_surrogate(
                    name,
                    outputs=list(new_outs),
                    stoichiometries={o_: {kk: _coef(v) for kk, v in d.items()} for o_, d in sto.items()},
                )

            def ab(c2):
                c2["surrogate"][name]["outputs"] = list(new_outs)
                c2["surrogate"][name]["stoich"] = copy.deepcopy(sto)

        else:  # new surrogate object under the same name, same outputs
            args = resolve_args(c, op["args"], op["wide"], exclude=name)
            args = [a for a in args if a not in cur["outputs"]] or ["time"]
            fd = _refit_multi(op["fn"], len(args), k)
            sto = {}
            for j, stl in op["stoich"]:
                sto[cur["outputs"][j % k]] = resolve_stoich(c, stl)

            def real(m):
                s = MockSurrogate(
                    fn=fnlib.make(fd),
                    args=list(args),
                    outputs=list(cur["outputs"]),
                    stoichiometries={o_: {kk: _coef(v) for kk, v in d.items()} for o_, d in sto.items()},
                )
                m.update_surrogate(name, surrogate=s)

            def ab(c2):
                c2["surrogate"][name] = {"fn": fd, "args": args, "outputs": list(cur["outputs"]), "stoich": copy.deepcopy(sto)}

        return f"update_surrogate[{which}]", mode, real, ab
    if o == "remove_surrogate":
        name, mode = resolve_target(c, "surrogate", op["t"])

        def real(m):
            m.remove_surrogate(name)

        def ab(c2):
            if name not in c2["surrogate"]:
                raise Reject
            del c2["surrogate"][name]

        return o, mode, real, ab
    # --- data -----------------------------------------------------------------
    if o == "add_data":
        name, mode = resolve_new(c, op["t"])
        vals = op["values"]

        def real(m):
            m.add_data(name, pd.Series(vals, dtype=float))

        def ab(c2):
            new_check(name)
            c2["data"][name] = {"values": vals}

        return o, mode, real, ab
    if o == "update_data":
        name, mode = resolve_target(c, "data", op["t"])
        vals = op["values"]

        def real(m):
            m.update_data(name, pd.Series(vals, dtype=float))

        def ab(c2):
            if name not in c2["data"]:
                raise Reject
            c2["data"][name] = {"values": vals}

        return o, mode, real, ab
    raise ValueError(o)


def _strip_var(c: dict, name: str) -> None:
    for p in c["reaction"].values():
        p["stoich"].pop(name, None)
    for p in c["surrogate"].values():
        for d in p["stoich"].values():
            d.pop(name, None)


def _refit(fd: dict, n: int) -> dict:
    """Adjust a scalar descriptor to arity n (keeps leading coefficients)."""
    from vlib import fnlib

    need = fnlib.ncoef(fd["kind"], n)
    c = (list(fd["c"]) + [0.5] * need)[:need]
    return {"kind": fd["kind"], "n": n, "c": c}


def _refit_multi(fd: dict, n: int, k: int) -> dict:
    parts = (fd["parts"] * k)[:k]
    return {"kind": "multi", "n": n, "parts": [_refit(p, n) for p in parts]}


# ----------------------------------------------------------------------
# observation + comparison


def observe(m) -> dict:
    obs: dict = {}
    obs["ids"] = ("ok", dict(m.ids))
    obs["names"] = (
        "ok",
        {
            "parameter": m.get_parameter_names(),
            "variable": m.get_variable_names(),
            "reaction": m.get_reaction_names(),
            "readout": m.get_readout_names(),
            "derived": list(m.get_raw_derived(as_copy=False)),
            "surrogate_outputs": m.get_surrogate_output_names(),
        },
    )

    def g(label, fn):
        try:
            obs[label] = ("ok", fn())
        except Exception as e:  # noqa: BLE001
            obs[label] = ("raise", type(e).__name__)

    g("parameter_values", lambda: dict(m.get_parameter_values()))
    g("initial_conditions", lambda: dict(m.get_initial_conditions()))
    g("args", lambda: (lambda s: (list(s.index), {k: float(v) for k, v in s.items()}))(m.get_args(include_readouts=True)))
    g("rhs", lambda: (lambda s: (list(s.index), {k: float(v) for k, v in s.items()}))(m.get_right_hand_side()))
    g("derived_parameter_names", lambda: list(m.get_derived_parameter_names()))
    return obs


def _same(a, b) -> bool:
    if isinstance(a, float) or isinstance(b, float):
        return close(a, b, rtol=1e-9)
    if isinstance(a, dict) and isinstance(b, dict):
        return a.keys() == b.keys() and all(_same(a[k], b[k]) for k in a)
    if isinstance(a, (list, tuple)) and isinstance(b, (list, tuple)):
        return len(a) == len(b) and all(_same(x, y) for x, y in zip(a, b))
    return a == b


def compare(real_obs: dict, fresh_obs: dict) -> list[tuple[str, dict]]:
    diffs = []
    for k in fresh_obs:
        ra, fa = real_obs[k], fresh_obs[k]
        if ra[0] != fa[0]:
            diffs.append((f"{k}:{'raises' if ra[0] == 'raise' else 'answers'}-but-fresh-{'raises' if fa[0] == 'raise' else 'answers'}", {"edited": _brief(ra), "fresh": _brief(fa)}))
        elif ra[0] == "raise":
            if ra[1] != fa[1]:
                diffs.append((f"{k}:different-exception", {"edited": ra[1], "fresh": fa[1]}))
        elif not _same(ra[1], fa[1]):
            diffs.append((f"{k}:differs", {"edited": _brief(ra), "fresh": _brief(fa)}))
    return diffs


def _brief(x):
    s = repr(x)
    return s if len(s) < 400 else s[:400] + "..."


def namespace_consistent(m) -> bool:
    names = (
        m.get_parameter_names()
        + m.get_variable_names()
        + list(m.get_raw_derived(as_copy=False))
        + m.get_reaction_names()
        + m.get_readout_names()
        + list(m.get_raw_surrogates(as_copy=False))
        + m.get_surrogate_output_names()
        + list(m._data)  # noqa: SLF001 - no public accessor for data-set names
    )
    return len(names) == len(set(names)) and set(names) == set(m.ids)


# ----------------------------------------------------------------------
# generation

_sel = st.fixed_dictionaries({"mode": st.sampled_from(["valid"] * 9 + ["otherkind", "otherkind", "unknown"]), "i": st.integers(0, 20)})
_newsel = st.fixed_dictionaries({"mode": st.sampled_from(["fresh"] * 6 + ["duplicate", "duplicate", "time"]), "i": st.integers(0, 20)})
_idx = st.lists(st.integers(0, 30), min_size=0, max_size=3)
_stoich = st.lists(st.tuples(st.integers(0, 10), st.one_of(st.integers(-2, 2).filter(bool), gm.nz_coef)).map(list), min_size=0, max_size=2)


@st.composite
def _value(draw):
    if draw(st.integers(0, 4)) == 0:
        idx = draw(_idx)
        return {"fn": draw(gm.fn_desc(len(idx))), "args": idx, "wide": draw(st.booleans())}
    return draw(gm.value)


@st.composite
def _op(draw) -> dict:
    o = draw(
        st.sampled_from(
            [
                "add_parameter", "add_variable", "add_parameters", "add_variables",
                "remove_parameter", "remove_variable", "remove_derived", "remove_reaction", "remove_readout", "remove_data",
                "remove_parameters", "remove_variables",
                "update_parameter", "update_variable", "update_parameters", "update_variables",
                "scale_parameter", "scale_parameters", "make_parameter_dynamic", "make_variable_static",
                "add_derived", "add_readout", "update_derived",
                "add_reaction", "update_reaction",
                "add_surrogate", "update_surrogate", "remove_surrogate",
                "add_data", "update_data",
                "update_parameter", "update_reaction", "update_derived", "update_surrogate", "add_derived", "add_reaction",
            ]
        )
    )
    op: dict = {"op": o, "check": draw(st.sampled_from([True, True, False]))}
    if o.startswith("add_") and not o.endswith("s"):
        op["t"] = draw(_newsel)
    else:
        op["t"] = draw(_sel)
    if o in ("add_parameter", "add_variable", "update_parameter", "update_variable"):
        op["v"] = draw(_value())
    if o in ("add_parameters", "add_variables", "update_parameters", "update_variables"):
        op["v"] = draw(gm.value)
        op["v2"] = draw(gm.value)
    if o == "remove_variable":
        op["remove_stoichiometries"] = draw(st.sampled_from([True, True, True, False]))
    if o in ("scale_parameter", "scale_parameters"):
        op["factor"] = draw(st.sampled_from([2.0, 0.5, -1.0, 3.0]))
    if o == "make_parameter_dynamic":
        op["initial_value"] = draw(st.one_of(st.none(), gm.value))
        op["stoich"] = draw(st.one_of(st.none(), st.lists(st.tuples(st.integers(0, 10), gm.nz_coef, st.sampled_from([False] * 5 + [True])).map(list), min_size=1, max_size=2)))
    if o == "make_variable_static":
        op["value"] = draw(st.one_of(st.none(), gm.value))
    if o in ("add_derived", "add_readout", "update_derived", "add_reaction", "update_reaction", "add_surrogate", "update_surrogate"):
        op["args"] = draw(_idx if o != "add_readout" else st.lists(st.integers(0, 30), min_size=1, max_size=3))
        op["wide"] = draw(st.sampled_from([False, False, True]))
        if "surrogate" in o:
            op["k"] = draw(st.integers(1, 2))
            op["fn"] = {"kind": "multi", "n": 1, "parts": [draw(gm.fn_desc(1)) for _ in range(2)]}
            op["stoich"] = draw(st.lists(st.tuples(st.integers(0, 3), _stoich).map(list), min_size=0, max_size=2))
        else:
            op["fn"] = draw(gm.fn_desc(len(op["args"])))
    if o in ("add_reaction", "update_reaction"):
        op["stoich"] = draw(_stoich)
    if o == "update_derived":
        op["which"] = draw(st.sampled_from(["fn", "args", "both"]))
    if o == "update_reaction":
        op["which"] = draw(st.sampled_from(["fn", "args", "stoich", "fn+args", "fn+stoich", "args+stoich", "fn+args+stoich"]))
    if o == "add_surrogate":
        op["clash_output"] = draw(st.sampled_from([False] * 8 + ["existing", "time", "duplicate", "own_name"]))
        op["via_kwargs"] = draw(st.booleans())
    if o == "update_surrogate":
        op["which"] = draw(st.sampled_from(["args", "stoich", "outputs", "object"]))
    if o in ("add_data", "update_data"):
        op["values"] = draw(st.lists(gm.coef, min_size=1, max_size=3))
    return op


@st.composite
def _case(draw) -> dict:
    spec = draw(gm.full_spec(max_par=3, max_var=3, max_nodes=4, ia_weight=1))
    n = draw(st.integers(4, 25))
    ops = [draw(_op()) for _ in range(n)]
    return {"start": spec, "ops": ops}


def strategy(tier: str):
    return _case()


# ----------------------------------------------------------------------


def examine(case: dict, ctx) -> Outcome:
    out = Outcome()
    content = content_from_spec(case["start"])
    try:
        real = build(spec_from_content(content))
    except Exception as e:  # noqa: BLE001
        out.bad("start-build-raises:" + type(e).__name__, error=repr(e))
        return out
    trace = []
    queried = False  # a query ran since the previous mutator
    saw_qmq = False
    pending_q = False
    seen_sigs = set()

    def check(after: str, mode: str) -> bool:
        """Compare edited vs fresh; returns True if equal."""
        fresh = build(spec_from_content(content))
        diffs = compare(observe(real), observe(fresh))
        ok = True
        for d, detail in diffs:
            sig = f"{after}:{mode}:{d}"
            ok = False
            if sig not in seen_sigs:
                seen_sigs.add(sig)
                out.bad(sig, **detail, step=len(trace))
        return ok

    check("start", "-")
    queried = True
    for op in case["ops"]:
        name, mode, real_call, ab = plan(content, op)
        cls = f"{name}|{mode}|{'after_query' if queried else 'no_query'}"
        out.classes.append(cls)
        trace.append([name, mode, queried])
        if queried:
            pending_q = True
        new_content = copy.deepcopy(content)
        try:
            ab(new_content)
            expect_ok = True
        except Reject:
            expect_ok = False
        raised = None
        try:
            real_call(real)
        except Exception as e:  # noqa: BLE001
            raised = e
        queried = False
        resync = False
        if expect_ok:
            if raised is not None:
                sig = f"{name}:{mode}:valid-edit-raises:{type(raised).__name__}"
                if sig not in seen_sigs:
                    seen_sigs.add(sig)
                    out.bad(sig, error=repr(raised)[:300], step=len(trace))
                # the statement does not say what a failing valid edit leaves behind: resync from the
                # unchanged content and go on
                resync = True
            else:
                content = new_content
        else:
            out.classes.append(f"rejected-expected|{name}")
            if raised is None:
                # accepted although the documented precondition fails
                if not namespace_consistent(real):
                    sig = f"{name}:{mode}:invalid-edit-accepted-and-name-space-inconsistent"
                    if sig not in seen_sigs:
                        seen_sigs.add(sig)
                        out.bad(sig, step=len(trace))
                else:
                    out.classes.append(f"invalid-accepted-consistent|{name}")
                resync = True
            else:
                # must have changed nothing
                if not check(name, mode + ":rejected-edit-changed-model"):
                    resync = True
                queried = True
        if not resync and (op["check"] or op is case["ops"][-1]):
            if not check(name, mode):
                resync = True
            queried = True
            if pending_q:
                saw_qmq = True
        if resync:
            real = build(spec_from_content(content))
            out.classes.append("resync")
    if saw_qmq:
        out.nontrivial = trace
    out.sample = {"start_kinds": [d[0] for d in case["start"]["decls"]], "history": trace}
    return out


MUTATORS_FLOOR = [
    "add_parameter", "remove_parameter", "update_parameter", "scale_parameter", "make_parameter_dynamic",
    "add_variable", "remove_variable", "update_variable", "make_variable_static",
    "add_derived", "remove_derived", "add_reaction", "remove_reaction", "add_readout", "remove_readout",
    "add_surrogate", "remove_surrogate", "add_data", "update_data", "remove_data",
]


def floors(ctx) -> list[str]:
    c = []
    for mname in MUTATORS_FLOOR:
        n = sum(v for k, v in ctx.classes.items() if k.startswith(mname + "|") and k.endswith("|after_query"))
        if n < 20:
            c.append(f"mutator {mname} after populated cache only {n} times")
    for pre in ("update_derived", "update_reaction", "update_surrogate"):
        n = sum(v for k, v in ctx.classes.items() if k.startswith(pre + "[") and k.endswith("|after_query"))
        if n < 20:
            c.append(f"mutator {pre} after populated cache only {n} times")
    return c
