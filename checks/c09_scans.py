"""C09 — scans equal independent runs, row-aligned, under any scheduling."""

from __future__ import annotations

import multiprocessing

import numpy as np
from hypothesis import strategies as st

from vlib import linear, scanmodels
from vlib.core import Outcome

ID = "C09"
LEVEL = "exploration"
DESIGN_REF = "DESIGN.md section 5, C09"
CASE_TIMEOUT = 240.0
RULE = (
    "Generated scan tables (1-3 columns mixing parameters and initial values, 1-10 rows, default / shuffled-int / string "
    "index labels) over picklable linear-network model families (plain, parameter defined by an initial assignment of a "
    "scanned initial value, derived parameter, finite-time blow-up, ZeroDivisionError rate) x scan kind (scan.steady_state, "
    "time_course, protocol, protocol_time_course; mc.steady_state, time_course, scan_steady_state) x 2-3 execution "
    "configurations drawn from {sequential, parallel with 1, 2, 3, 16 workers}, optionally with a row-dependent sleep "
    "hidden in a derived parameter so that later rows finish first. Oracle: per row, a fresh model from the factory with "
    "exactly that row's values and a direct Simulator call; all views (variables, fluxes, get_args) are read after the "
    "scan finished. Non-trivial: >=2 rows with different values AND (parallel with rows > workers, or a failing row, or "
    "assignment-defined parameters, or a perturbed schedule); distinct by (family, kind, table shape, configurations)."
)
ASSUMPTIONS = [
    "the OS scheduler is not controlled: 'any scheduling' is attacked by worker-count variation and injected delays only",
    "same code, same inputs: agreement required to 1e-10 relative",
    "steady-state scans are labelled by the scanned values (documented), time-course/protocol scans by the input index labels",
]
TECHNIQUE = "property-based differential testing: every scan row vs an independent fresh-model simulation, across sequential/parallel configurations with injected delays (metamorphic across configurations)"
LEVEL_TEXT = "Generated scan tables, model families and execution configurations; each row of each scan is compared with an independently simulated fresh model, including failing rows (NaN placeholder) and schedule perturbation."
LEVEL_NOTE = "Trusted: Simulator on a single fresh model (C04/C14/C15), pebble process pools; scheduler not controlled."


def budget(tier: str) -> dict:
    if tier == "quick":
        return {"examples": 30}
    return {"examples": 90, "shards": 4}


KINDS = ["steady_state", "time_course", "time_course", "protocol", "protocol_time_course", "mc_steady_state", "mc_time_course", "mc_scan_steady_state"]
_rate = st.sampled_from([0.05, 0.25, 0.5, 1.0, 2.0])


@st.composite
def _case(draw, variant=None):
    lin = draw(linear.lin_strategy(max_n=2))
    variant = variant or draw(st.sampled_from(["plain", "ia", "ia", "derived", "quad", "zerodiv"]))
    kind = draw(st.sampled_from(KINDS))
    if variant == "quad":
        lin["x0"][0] = max(1.0, lin["x0"][0])
        if "steady" in kind:
            kind = "time_course"
    delay = draw(st.integers(0, 2)) == 0
    md = {"lin": lin, "variant": variant, "delay": delay}
    pn = linear.param_names(lin)
    vn = linear.var_names(lin)
    nrows = draw(st.integers(1, 10))
    pool = pn + vn
    cols = draw(st.lists(st.sampled_from(pool), min_size=1, max_size=2, unique=True))
    if variant == "ia" and "x0" not in cols:  # the assignment reads x0: scanning it is what the variant is for
        cols.append("x0")
    table = {}
    for c in cols:
        if c in vn:
            table[c] = [draw(st.integers(1, 40)) / 4 for _ in range(nrows)]
        else:
            table[c] = [draw(_rate) for _ in range(nrows)]
    fail_rows: list[int] = []
    if variant == "quad":
        table["kquad"] = [draw(st.sampled_from([0.0, 0.0, 5.0])) for _ in range(nrows)]
    if variant == "zerodiv":
        table["kz"] = [draw(st.sampled_from([1.0, 2.0, 0.0])) for _ in range(nrows)]
    if "steady" in kind and draw(st.booleans()) and not any(c[0] == 0 for c in lin["conv"]):
        table["kd0"] = [draw(st.sampled_from([0.5, 1.0, 0.0])) for _ in range(nrows)]
    if delay:
        table["zz_delay"] = [round(0.03 * (nrows - i), 3) for i in range(nrows)]
    idx_kind = draw(st.sampled_from(["default", "shuffled", "strings"]))
    if idx_kind == "default":
        index = list(range(nrows))
    elif idx_kind == "shuffled":
        index = draw(st.permutations(list(range(10, 10 + nrows))))
    else:
        index = [f"row{chr(97 + i)}" for i in draw(st.permutations(list(range(nrows))))]
    configs = draw(st.lists(st.sampled_from(["seq", "par1", "par2", "par3", "par16"]), min_size=2, max_size=3, unique=True))
    if kind.startswith("mc_"):
        configs = [c for c in configs if c != "seq"] or ["par2"]
    elif "seq" not in configs:
        configs = ["seq", *configs[:2]]  # sequential vs parallel is the axis that matters most
    case = {"model": md, "kind": kind, "table": table, "index": list(index), "configs": configs, "fail_rows": fail_rows}
    case["time_points"] = [0.0] + sorted({draw(st.integers(1, 24)) / 4 for _ in range(draw(st.integers(1, 4)))})
    if "protocol" in kind:
        k = draw(st.sampled_from(pn))
        case["protocol"] = [[draw(st.integers(2, 12)) / 4, {k: draw(_rate)}] for _ in range(draw(st.integers(1, 3)))]
        case["tps"] = draw(st.integers(1, 4))
    if kind == "mc_scan_steady_state":
        k = draw(st.sampled_from(pn))
        case["grid"] = {k: [draw(_rate) for _ in range(draw(st.integers(1, 3)))]}
    return case


def strategy(tier: str):
    return _case()


def strategies(tier: str):
    # one budget per model variant: with ~30 cases a single strategy leaves a variant at 0-1 cases at some seeds
    f = 1 if tier == "quick" else 3
    return [(v, _case(v), n * f) for v, n in (("plain", 5), ("ia", 8), ("derived", 5), ("quad", 6), ("zerodiv", 6))]


# ----------------------------------------------------------------------


def _apply(m, row: dict) -> None:
    vs = set(m.get_variable_names())
    ps = set(m.get_parameter_names())
    m.update_variables({k: v for k, v in row.items() if k in vs})
    m.update_parameters({k: v for k, v in row.items() if k in ps})


def _reference(case: dict, row: dict, extra: dict | None = None):
    """Independent run: fresh model, this row's values, direct Simulator call. Returns Simulation or None (failed)."""
    from mxlpy import Simulator, make_protocol

    m = scanmodels.build(case["model"])
    r = dict(row)
    r.pop("zz_delay", None)  # the delay only perturbs the schedule
    if extra:
        r.update(extra)
    _apply(m, r)
    kind = case["kind"].replace("mc_", "")
    try:
        s = Simulator(m)
        if kind in ("steady_state", "scan_steady_state"):
            s.simulate_to_steady_state()
        elif kind == "time_course":
            s.simulate_time_course(np.array(case["time_points"]))
        elif kind == "protocol":
            s.simulate_protocol(make_protocol([(d, pv) for d, pv in case["protocol"]]), time_points_per_step=case["tps"])
        else:
            s.simulate_protocol_time_course(make_protocol([(d, pv) for d, pv in case["protocol"]]), np.array(case["time_points"]))
        res = s.get_result().value
    except ZeroDivisionError:
        return "zerodiv"
    except Exception as e:  # noqa: BLE001 - a direct simulation that raises is a failing row as well
        return None if not isinstance(e, (KeyError, TypeError, AttributeError)) else (_ for _ in ()).throw(e)
    if isinstance(res, Exception):
        return None
    return res


def _frames_equal(a, b) -> str | None:
    """a: scan frame for one row; b: reference frame. Returns None if equal else reason."""
    if list(a.columns) != list(b.columns):
        return f"columns {list(a.columns)} != {list(b.columns)}"
    if len(a) != len(b) or not np.allclose(np.asarray(a.index, dtype=float), np.asarray(b.index, dtype=float), rtol=0, atol=1e-12):
        return f"index {list(a.index)[:8]} != {list(b.index)[:8]}"
    x, y = a.to_numpy(dtype=float), b.to_numpy(dtype=float)
    if not np.array_equal(np.isnan(x), np.isnan(y)):
        return "nan-pattern"
    ok = np.isclose(x, y, rtol=1e-10, atol=1e-12, equal_nan=True)
    if not ok.all():
        i, j = np.argwhere(~ok)[0]
        return f"value[{i},{a.columns[j]}] {x[i, j]!r} != {y[i, j]!r}"
    return None


def examine(case: dict, ctx) -> Outcome:
    import pandas as pd
    from mxlpy import make_protocol, mc, scan

    out = Outcome()
    md = case["model"]
    kind = case["kind"]
    table = pd.DataFrame(case["table"], index=case["index"])
    nrows = len(table)
    rows = [{k: float(v) for k, v in r.items()} for _, r in table.iterrows()]  # python floats, as Series.to_dict() hands them on
    variant = md["variant"]
    vn_ = linear.var_names(md["lin"])

    # references
    if kind == "mc_scan_steady_state":
        grid = pd.DataFrame(case["grid"])
        refs = [[_reference(case, r, {k: float(v) for k, v in g.items()}) for _, g in grid.iterrows()] for r in rows]
        flat = [x for rr in refs for x in rr]
    else:
        refs = [_reference(case, r) for r in rows]
        flat = refs
    failing = [i for i, x in enumerate(refs) if (x is None or x == "zerodiv" or (isinstance(x, list) and any(y is None or y == "zerodiv" for y in x)))]
    failkind = "none"
    if any(x == "zerodiv" for x in flat):
        failkind = "zerodivision-at-initial-state"
    elif any(x is None for x in flat):
        failkind = "integration-or-no-steady-state"
    distinct_rows = len({tuple(sorted((k, v) for k, v in r.items() if k != "zz_delay")) for r in rows}) >= 2
    out.classes = [f"kind:{kind}", f"variant:{variant}", f"fail:{failkind}", "delay" if md["delay"] else "no_delay", f"rows={min(nrows, 9)}"]
    ia_scanned = variant == "ia" and "x0" in table.columns
    if ia_scanned:
        out.classes.append("ia_of_scanned_initial_value")

    nontrivial_cfg = False
    for cfg in case["configs"]:
        parallel = cfg != "seq"
        workers = int(cfg[3:]) if parallel else 0
        out.classes.append(f"cfg:{cfg}")
        if parallel and nrows > workers:
            out.classes.append("rows>workers")
            nontrivial_cfg = True
        m = scanmodels.build(md)
        before_pv = dict(m.get_parameter_values())
        old_cc = multiprocessing.cpu_count
        tag = f"{kind}:{'par' if parallel else 'seq'}:{variant}" + (":ia-of-scanned-initial-value" if ia_scanned else "") + f":fail={failkind}"
        try:
            if parallel:
                multiprocessing.cpu_count = lambda w=workers: w
            try:
                if kind == "steady_state":
                    sc = scan.steady_state(m, to_scan=table, parallel=parallel)
                elif kind == "time_course":
                    sc = scan.time_course(m, to_scan=table, time_points=np.array(case["time_points"]), parallel=parallel)
                elif kind == "protocol":
                    sc = scan.protocol(m, to_scan=table, protocol=make_protocol([(d, pv) for d, pv in case["protocol"]]), time_points_per_step=case["tps"], parallel=parallel)
                elif kind == "protocol_time_course":
                    sc = scan.protocol_time_course(m, to_scan=table, protocol=make_protocol([(d, pv) for d, pv in case["protocol"]]), time_points=np.array(case["time_points"]), parallel=parallel)
                elif kind == "mc_steady_state":
                    sc = mc.steady_state(m, mc_to_scan=table, max_workers=workers)
                elif kind == "mc_time_course":
                    sc = mc.time_course(m, time_points=np.array(case["time_points"]), mc_to_scan=table, max_workers=workers)
                else:
                    sc = mc.scan_steady_state(m, to_scan=grid, mc_to_scan=table, max_workers=workers)
            finally:
                multiprocessing.cpu_count = old_cc
            # read all views after the scan finished
            V = sc.variables
            F = sc.fluxes
            if hasattr(sc, "get_args"):
                sc.get_args()
        except Exception as e:  # noqa: BLE001
            out.bad(f"{tag}:scan-raises:{type(e).__name__}", error=repr(e)[:200])
            continue

        # compare per row
        if kind in ("steady_state", "mc_steady_state"):
            if len(V) != nrows or len(F) != nrows:
                out.bad(f"{tag}:row-count", got=len(V), want=nrows)
                continue
            # labelled by the scanned values, in input order
            want_idx = [tuple(r) if table.shape[1] > 1 else r[0] for r in table.to_numpy().tolist()]
            got_idx = [tuple(x) if isinstance(x, tuple) else x for x in V.index.tolist()]
            if got_idx != want_idx:
                out.bad(f"{tag}:index-labels", got=got_idx[:6], want=want_idx[:6])
            for i, ref in enumerate(refs):
                gv, gf = V.iloc[i], F.iloc[i]
                if ref is None or ref == "zerodiv":
                    # the state must be NaN; fluxes that do not depend on the state may be finite
                    if not gv[vn_].isna().all():
                        out.bad(f"{tag}:failing-row-not-NaN", row=i, got=gv.to_dict())
                        break
                    continue
                wv, wf = ref.variables.iloc[-1], ref.fluxes.iloc[-1]
                if list(gv.index) != list(wv.index) or not np.allclose(gv.to_numpy(float), wv.to_numpy(float), rtol=1e-10, atol=1e-12, equal_nan=True):
                    out.bad(f"{tag}:row-variables-differ", row=i, got=gv.to_dict(), want=wv.to_dict())
                    break
                if list(gf.index) != list(wf.index) or not np.allclose(gf.to_numpy(float), wf.to_numpy(float), rtol=1e-10, atol=1e-12, equal_nan=True):
                    out.bad(f"{tag}:row-fluxes-differ", row=i, got=gf.to_dict(), want=wf.to_dict())
                    break
        elif kind == "mc_scan_steady_state":
            ng = len(grid)
            if len(V) != nrows * ng:
                out.bad(f"{tag}:row-count", got=len(V), want=nrows * ng)
                continue
            for i in range(nrows):
                for j in range(ng):
                    ref = refs[i][j]
                    gv, gf = V.iloc[i * ng + j], F.iloc[i * ng + j]
                    if V.index[i * ng + j][0] != table.index[i]:
                        out.bad(f"{tag}:index-labels", pos=i * ng + j, got=str(V.index[i * ng + j]), want=str(table.index[i]))
                        break
                    if ref is None or ref == "zerodiv":
                        if not gv[vn_].isna().all():
                            out.bad(f"{tag}:failing-row-not-NaN", row=i, grid=j)
                        continue
                    wv, wf = ref.variables.iloc[-1], ref.fluxes.iloc[-1]
                    if not np.allclose(gv.to_numpy(float), wv.to_numpy(float), rtol=1e-10, atol=1e-12, equal_nan=True) or not np.allclose(gf.to_numpy(float), wf.to_numpy(float), rtol=1e-10, atol=1e-12, equal_nan=True):
                        out.bad(f"{tag}:row-values-differ", row=i, grid=j, got=gv.to_dict(), want=wv.to_dict())
                        break
        else:
            keys = list(dict.fromkeys(V.index.get_level_values(0)))
            if keys != list(table.index):
                out.bad(f"{tag}:index-labels", got=[str(k) for k in keys][:8], want=[str(k) for k in table.index][:8])
                continue
            for i, key in enumerate(table.index):
                ref = refs[i]
                gv, gf = V.loc[key], F.loc[key]
                if ref is None or ref == "zerodiv":
                    if not gv[vn_].isna().all().all():
                        out.bad(f"{tag}:failing-row-not-NaN", row=i)
                        break
                    exp_cols = None
                    exp_index = list(case["time_points"]) if kind in ("time_course", "mc_time_course") else None
                    for other in refs:
                        if other is not None and other != "zerodiv":
                            exp_cols = (list(other.variables.columns), list(other.fluxes.columns))
                            exp_index = [float(x) for x in other.variables.index]  # same protocol / grid for every row
                            break
                    if exp_cols and (list(gv.columns) != exp_cols[0] or list(gf.columns) != exp_cols[1]):
                        out.bad(f"{kind}:failing-row-placeholder-columns", row=i, got=list(gv.columns), want=exp_cols[0])
                        break
                    if exp_index is not None and [float(x) for x in gv.index] != exp_index:
                        out.bad(f"{kind}:failing-row-placeholder-time-axis", row=i, got=[float(x) for x in gv.index], want=exp_index)
                        break
                    continue
                why = _frames_equal(gv, ref.variables)
                if why:
                    out.bad(f"{tag}:row-variables-differ", row=i, why=why)
                    break
                why = _frames_equal(gf, ref.fluxes)
                if why:
                    out.bad(f"{tag}:row-fluxes-differ", row=i, why=why)
                    break
    if distinct_rows and (nontrivial_cfg or failing or variant == "ia" or md["delay"]):
        out.nontrivial = [variant, kind, sorted(case["table"]), nrows, case["configs"], failkind, md["delay"]]
    out.sample = {"family": variant, "kind": kind, "table": case["table"], "index": case["index"], "configs": case["configs"], "delay": md["delay"]}
    return out


def floors(ctx) -> list[str]:
    c = []
    for k in ["cfg:seq", "rows>workers", "variant:ia", "delay", "ia_of_scanned_initial_value"]:
        if ctx.classes.get(k, 0) < 2:
            c.append(f"class {k} only {ctx.classes.get(k, 0)}")
    return c
