"""C11 — model -> generated MxlPy source -> model preserves behaviour, or fails."""

from __future__ import annotations

import copy

from hypothesis import strategies as st

from vlib import gen_models as gm
from vlib import gen_srcmodels as gs
from vlib.core import Outcome
from vlib.fnsrc import rates, rates_b, rates_c
from vlib.spec import Ref, build, close, decls_of, var_names

ID = "C11"
LEVEL = "exploration"
DESIGN_REF = "DESIGN.md section 5, C11"
RULE = (
    "Generated models of variables, parameters, derived quantities and reactions over a small drawn subset (3-5) of a "
    "source-backed function library, so that one Python function serves several components with different, permuted, "
    "overlapping or repeated argument names; functions whose translation prints as math.* (floor division, math.pi, "
    "math.e, x**0.5); a second module whose functions share their __name__ with library functions but differ; computed "
    "coefficients sharing a function inside one reaction; initial assignments on variables and parameters; and a class "
    "with an untranslatable function (generation must raise). Oracle: exec(generate_mxlpy_code(m)) in a fresh namespace, "
    "create_model(), compared with the original: names and kinds (ids), parameter values, initial conditions, and at a "
    "random state/time the full argument table and right-hand side. Non-trivial: a function shared by >=2 components "
    "with different argument lists, or a __name__ collision, or a math.* user, or an initial assignment; distinct by "
    "structural hash incl. function names."
)
ASSUMPTIONS = [
    "the generated source is executed with only what it imports itself",
    "tolerance 1e-9 relative (floats printed with 15+ digits)",
    "readouts, data, surrogates are outside the statement (model made of variables, parameters, derived quantities, reactions)",
]
TECHNIQUE = "property-based round-trip testing: generated source is executed and the rebuilt model compared with the original at generated states"
LEVEL_TEXT = "Generated models with deliberately shared and same-named functions; the generated source is executed and compared structurally and numerically with the original."
LEVEL_NOTE = "Trusted: Model queries (C01/C13) on both sides; CPython exec."

MATH_FNS = {"floordiv2", "mod_half", "neg_mod", "circle", "root", "euler"}


def budget(tier: str) -> dict:
    if tier == "quick":
        return {"examples": 900}
    return {"examples": 1500, "shards": 16}


@st.composite
def _case(draw):
    names = sorted(n for n in rates.ARITY if not n.startswith("untranslatable"))
    k = draw(st.integers(3, 5))
    subset = draw(st.lists(st.sampled_from(names), min_size=k, max_size=k, unique=True))
    if draw(st.booleans()):
        subset.append(draw(st.sampled_from(sorted(MATH_FNS))))
    if draw(st.booleans()):
        subset.append(draw(st.sampled_from(sorted(rates_b.ARITY))))
    spec = copy.deepcopy(draw(gs.src_spec(fn_names=subset, max_nodes=7)))
    # initial assignment on a variable
    if draw(st.integers(0, 2)) == 0:
        for d in spec["decls"]:
            if d[0] == "variable":
                pars = [n for n, p in decls_of(spec, "parameter") if "ia" not in p]
                fd, args = draw(gs.call(pars, names=["twice", "add2", "constant", "mul2"]))
                d[2] = {"ia": {"fn": fd, "args": args}}
                break
    # same-named functions from another module
    collide = draw(st.booleans())
    if collide:
        for d in spec["decls"]:
            holders = [d[2]] if d[0] in ("derived", "reaction") else ([d[2]["ia"]] if "ia" in d[2] else [])
            if d[0] == "reaction":
                holders += [c for c in d[2]["stoich"].values() if isinstance(c, dict)]
            for h in holders:
                if h["fn"]["name"] in rates_b.ARITY and draw(st.booleans()):
                    h["fn"] = {**h["fn"], "module": "rates_b"}
                elif h["fn"]["name"] in rates_c.ARITY and draw(st.booleans()):
                    # same __name__, other arity: one more argument, which the function ignores
                    avail_names = [d2[1] for d2 in spec["decls"] if d2[0] == "parameter" and "ia" not in d2[2]]
                    h["fn"] = {**h["fn"], "module": "rates_c", "n": rates_c.ARITY[h["fn"]["name"]]}
                    h["args"] = [*h["args"], draw(st.sampled_from(avail_names))]
    # the same __name__ with two arities inside one model, identical bodies up to argument names
    if draw(st.integers(0, 5)) == 0:
        nm = draw(st.sampled_from(sorted(rates_c.ARITY)))
        pars = [d2[1] for d2 in spec["decls"] if d2[0] == "parameter" and "ia" not in d2[2]]
        a_short = [draw(st.sampled_from(pars)) for _ in range(rates.ARITY[nm])]
        a_long = [draw(st.sampled_from(pars)) for _ in range(rates_c.ARITY[nm])]
        two = [
            ["derived", "dz0", {"fn": gs.lib(nm), "args": a_short}],
            ["derived", "dz1", {"fn": {**gs.lib(nm), "module": "rates_c", "n": rates_c.ARITY[nm]}, "args": a_long}],
        ]
        if draw(st.booleans()):
            two.reverse()
        for d2 in two:
            spec["decls"].insert(draw(st.integers(0, len(spec["decls"]))), d2)
    unt = draw(st.integers(0, 11)) == 0
    if unt:
        for d in spec["decls"]:
            if d[0] in ("derived", "reaction"):
                d[2]["fn"] = gs.lib(draw(st.sampled_from(["untranslatable_loop", "untranslatable_exp", "untranslatable_aug"])))
                d[2]["args"] = [var_names(spec)[0]]
                break
    state = {v: draw(gs.xval) for v in var_names(spec)}
    rename = None
    if not unt and draw(st.integers(0, 9)) == 0:
        # component names end up as parameter names of the generated functions
        cands = [d[1] for d in spec["decls"] if d[0] in ("parameter", "variable")]
        rename = [draw(st.sampled_from(cands)), draw(st.sampled_from(PY_BREAKS + PY_HARMLESS))]
    return {"spec": spec, "state": state, "time": draw(st.sampled_from([0.0, 0.5, 2.0])), "untranslatable": unt, "rename": rename}


PY_BREAKS: list[str] = []  # (names that are no identifiers were here until the generator learnt to derive parameter names from them)
# no identifiers, Python keywords, names the generated module uses itself, names that only look special: all have to work
PY_HARMLESS = ["x y", "k-1", "2x", "α β", "lambda", "in", "is", "class", "def", "None", "as", "return", "if", "math", "Model", "Derived", "InitialAssignment", "type", "E", "PI", "self", "fn", "float"]


def strategy(tier: str):
    return _case()


def _uses(spec: dict) -> list[tuple[str, str, tuple]]:
    """(module, function name, args) for every function use."""
    u = []
    for k, n, p in spec["decls"]:
        hs = []
        if k in ("derived", "reaction"):
            hs.append(p)
        if k in ("variable", "parameter") and "ia" in p:
            hs.append(p["ia"])
        if k == "reaction":
            hs += [c for c in p["stoich"].values() if isinstance(c, dict)]
        for h in hs:
            u.append((h["fn"].get("module", "rates"), h["fn"]["name"], tuple(h["args"])))
    return u


def examine(case: dict, ctx) -> Outcome:
    from mxlpy.meta import generate_mxlpy_code

    out = Outcome()
    spec = case["spec"]
    special = None
    if case.get("rename"):
        from checks.c07_codegen import _rename

        old_, special = case["rename"]
        spec = {"decls": _rename(spec["decls"], old_, special)}
        case = {**case, "state": _rename(case["state"], old_, special)}
    uses = _uses(spec)
    by_fn: dict[tuple, set] = {}
    by_name: dict[str, set] = {}
    for mod, name, args in uses:
        by_fn.setdefault((mod, name), set()).add(args)
        by_name.setdefault(name, set()).add(mod)
    shared = any(len(a) >= 2 for a in by_fn.values())
    collision = any(len(m) >= 2 for m in by_name.values())
    arity_collision = any({"rates", "rates_c"} <= m for m in by_name.values())
    mathuser = any(name in MATH_FNS for _, name, _ in uses)
    dup_args = any(len(set(a)) < len(a) for _, _, a in uses)
    has_ia = any(k in ("variable", "parameter") and "ia" in p for k, _, p in spec["decls"])
    out.classes = [c for c, f in [("shared_function", shared), ("name_collision", collision), ("same_name_two_arities", arity_collision), ("math_user", mathuser), ("repeated_argument", dup_args), ("initial_assignment", has_ia), ("untranslatable", case["untranslatable"]), ("name_breaking_python", special in PY_BREAKS), ("name_used_by_generated_module_or_harmless", special in PY_HARMLESS)] if f]
    root = "name-collision" if collision else ("math-user" if mathuser else ("repeated-argument" if dup_args else ("shared-function" if shared else ("initial-assignment" if has_ia else "plain"))))

    try:
        m = build(spec)
        ref_args = m.get_args(dict(case["state"]), case["time"])
        ref_rhs = m.get_right_hand_side(dict(case["state"]), case["time"])
        ref_ic = dict(m.get_initial_conditions())
        ref_pv = dict(m.get_parameter_values())
        ref_ids = m.ids
    except (ZeroDivisionError, OverflowError, ValueError, TypeError) as e:
        if case["untranslatable"]:
            m = build(spec)
            ref_args = None
        else:
            out.skipped = f"reference-undefined:{type(e).__name__}"
            return out
    if ref_args is not None and any(isinstance(v, complex) or v != v or abs(v) == float("inf") for v in ref_args.to_numpy().tolist()):
        out.skipped = "reference-non-finite"
        return out

    try:
        src = generate_mxlpy_code(m)
        gen_exc = None
    except Exception as e:  # noqa: BLE001
        src = None
        gen_exc = e
    if case["untranslatable"]:
        if src is not None:
            out.bad("emits-source-for-untranslatable-function", code=src[:400])
        return out
    if src is None:
        out.bad(f"generation-raises:{type(gen_exc).__name__}:{root}", error=repr(gen_exc)[:200], spec=spec)
        return out
    if shared or collision or mathuser or has_ia:
        out.nontrivial = [gm.structure_key(spec), sorted(set((a, b) for a, b, _ in uses))]
        out.sample = {"uses": sorted(set(uses))[:12], "source_head": src[:600]}
    ns: dict = {}
    try:
        exec(compile(src, "<generated-mxlpy>", "exec"), ns)  # noqa: S102
        m2 = ns["create_model"]()
    except Exception as e:  # noqa: BLE001
        if special in PY_BREAKS:
            out.bad("generated-source-fails:name-not-usable-as-python-identifier", name=special, error=repr(e)[:200], code=src[:500])
            return out
        out.bad(f"generated-source-fails:{type(e).__name__}:{root}", error=repr(e)[:200], code=src[:800])
        return out
    try:
        ids2 = m2.ids
        if ids2 != ref_ids:
            out.bad(f"names-or-kinds-differ:{root}", got=ids2, want=ref_ids)
            return out
        pv2 = dict(m2.get_parameter_values())
        for k, v in ref_pv.items():
            if k not in pv2 or not close(pv2[k], v):
                out.bad(f"parameter-value-differs:{root}", name=k, got=pv2.get(k), want=v)
                return out
        ic2 = dict(m2.get_initial_conditions())
        if list(ic2) != list(ref_ic) or any(not close(ic2[k], v) for k, v in ref_ic.items()):
            out.bad(f"initial-values-differ:{root}", got=ic2, want=ref_ic)
            return out
        a2 = m2.get_args(dict(case["state"]), case["time"])
        for name in ref_args.index:
            if name not in a2.index or not close(a2[name], ref_args[name]):
                out.bad(f"value-differs:{root}", name=name, got=float(a2[name]) if name in a2.index else None, want=float(ref_args[name]), code=src[:800])
                return out
        r2 = m2.get_right_hand_side(dict(case["state"]), case["time"])
        for name in ref_rhs.index:
            if not close(r2[name], ref_rhs[name], abs(ref_rhs[name])):
                out.bad(f"derivative-differs:{root}", name=name, got=float(r2[name]), want=float(ref_rhs[name]), code=src[:800])
                return out
    except Exception as e:  # noqa: BLE001
        out.bad(f"rebuilt-model-raises:{type(e).__name__}:{root}", error=repr(e)[:200], code=src[:800])
    return out


def floors(ctx) -> list[str]:
    c = []
    for k in ["shared_function", "name_collision", "same_name_two_arities", "math_user", "initial_assignment", "untranslatable", "repeated_argument", "name_used_by_generated_module_or_harmless"]:
        if ctx.classes.get(k, 0) < 8:
            c.append(f"class {k} only {ctx.classes.get(k, 0)}")
    return c


del Ref
