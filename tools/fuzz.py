#!/venv/bin/python
"""Coverage-guided campaign for one check: libFuzzer (atheris) mutates the byte stream that Hypothesis turns into a case.

usage: PYTHONPATH=/verif/.deps:/verif /venv/bin/python tools/fuzz.py <ID> --seconds N [--state-out file]

The generator (the check's Hypothesis strategy) and the oracle (the check's `examine`) are the ones the quick / thorough tiers
use; what changes is the search: inputs that reach new branches of the instrumented MxlPy modules are kept and mutated further.
Verdicts are bucketed by signature exactly as in the other tiers; the first case of every unlisted signature is written to
.work/<ID>/fuzz/ and reported by the caller (vlib.run) as a VIOLATION.
"""

from __future__ import annotations

import argparse
import json
import os
import sys
import time
from pathlib import Path

ROOT = Path(__file__).resolve().parent.parent
sys.path.insert(0, str(ROOT))
sys.path.insert(0, str(ROOT / ".deps"))

INSTRUMENT = {
    "C04": ["mxlpy.simulator", "mxlpy.simulation", "mxlpy.integrators.int_scipy"],
    "C05": ["mxlpy.label_map"],
    "C06": ["mxlpy.meta.source_tools"],
    "C14": ["mxlpy.simulator", "mxlpy.simulation", "mxlpy.integrators.int_scipy"],
    "C15": ["mxlpy.simulator", "mxlpy.integrators.int_scipy", "mxlpy.scan"],
    "C16": ["mxlpy.linear_label_map", "mxlpy.label_map"],
    "C18": ["mxlpy.mca", "mxlpy.mc"],
    "C20": ["mxlpy.fit.routines", "mxlpy.fit.losses", "mxlpy.fit.abstract", "mxlpy.minimizers._scipy"],
}


def main() -> int:
    ap = argparse.ArgumentParser()
    ap.add_argument("pid")
    ap.add_argument("--seconds", type=int, default=60)
    ap.add_argument("--state-out", default=None)
    a = ap.parse_args()
    import atheris

    os.environ.setdefault("MXLPY_VERIF", "1")
    repo = os.environ.get("VERIF_REPO", "/repo")
    sys.path.insert(0, f"{repo}/src")
    with atheris.instrument_imports(include=INSTRUMENT.get(a.pid, ["mxlpy"])):
        import mxlpy  # noqa: F401
        for mod_name in INSTRUMENT.get(a.pid, []):
            __import__(mod_name)
    import logging

    logging.disable(logging.WARNING)
    from vlib import core, run

    core.patch_hypothesis()
    mod = run._check_module(a.pid)  # noqa: SLF001
    seed = int(os.environ.get("VERIF_SEED", "1"))
    ctx = core.Ctx(a.pid, "thorough", seed)
    ctx.work = ROOT / ".work" / a.pid / "fuzz"
    ctx.work.mkdir(parents=True, exist_ok=True)
    if hasattr(mod, "prepare"):
        mod.prepare(ctx)
    import hypothesis
    from hypothesis import given, settings

    strat = mod.strategy("thorough")
    counts = {"executions": 0}

    @settings(database=None, deadline=None, suppress_health_check=list(hypothesis.HealthCheck))
    @given(case=strat)
    def one(case):
        counts["executions"] += 1
        out = core.safe_examine(mod, case, ctx)
        ctx.record(case, out)
        # libFuzzer ends the process without unwinding: keep the state file current
        if time.time() - last[0] > 2.0:
            flush()

    last = [time.time()]

    def flush() -> None:
        last[0] = time.time()
        state = ctx.dump_state()
        state["fuzz"] = {"executions": counts["executions"], "seconds": round(time.time() - t0, 1)}
        if a.state_out:
            tmp = Path(a.state_out + ".tmp")
            tmp.write_text(json.dumps(state))
            tmp.replace(a.state_out)

    # a starting corpus of pseudo-random buffers (a pure function of the seed): from an empty corpus libFuzzer only tries
    # buffers too short for Hypothesis to decode a case from, and learns nothing from their rejection
    import random
    import shutil

    corpus = ctx.work / "corpus"
    shutil.rmtree(corpus, ignore_errors=True)
    corpus.mkdir(parents=True)
    rng = random.Random(seed)
    for i in range(64):
        (corpus / f"seed{i:02d}").write_bytes(rng.randbytes(rng.choice([256, 1024, 4096, 8192])))

    t0 = time.time()
    atheris.Setup([sys.argv[0], str(corpus), "-max_len=16384", f"-max_total_time={a.seconds}", f"-seed={seed}", "-print_final_stats=0", "-verbosity=0"], one.hypothesis.fuzz_one_input)
    atheris.Fuzz()  # does not return
    return 0


if __name__ == "__main__":
    sys.exit(main())
