#!/bin/bash
# usage: tools/run_mutant.sh <check-id> (--revert <commit> | <patch.diff>) [tier]
# Applies a change to a scratch worktree of /repo (never to /repo), runs the check against it, removes the worktree.
set -u
ID=$1; shift
D=$(mktemp -d /tmp/mxlpy-mut-XXXXXX)
rmdir "$D"
git -C /repo worktree add -q --detach "$D" HEAD || exit 2
if [ "$1" = "--revert" ]; then
  git -C "$D" revert --no-commit "$2" >/dev/null 2>&1 || { echo "revert failed"; git -C /repo worktree remove --force "$D"; exit 2; }
  shift 2
else
  git -C "$D" apply "$1" || { echo "apply failed"; git -C /repo worktree remove --force "$D"; exit 2; }
  shift
fi
TIER=${1:-quick}
cd /verif
VERIF_REPO="$D" /venv/bin/python -m vlib.run "$ID" --tier "$TIER" 2>&1 | sed 's/\x1b\[[0-9;]*m//g' | cut -c1-400 | tail -${MUT_TAIL:-6}
RC=${PIPESTATUS[0]}
git -C /repo worktree remove --force "$D"
git -C /repo worktree prune
rm -rf replay/"$ID"
echo "mutant exit=$RC"
exit 0
