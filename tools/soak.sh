#!/bin/bash
# usage: tools/soak.sh "<ids>" "<seeds>"   — runs quick tier of each check at each seed; prints non-zero exits
cd "$(dirname "$0")/.."
IDS=${1:-$(/venv/bin/python -c "import json;print(' '.join(c['property_id'] for c in json.load(open('MANIFEST.json'))['checks']))")}
SEEDS=${2:-"1 2 3 17 12345"}
TIER=${3:-quick}
for id in $IDS; do for s in $SEEDS; do
  out=$(VERIF_SEED=$s timeout 9000 /venv/bin/python -m vlib.run $id --tier $TIER 2>&1 | sed 's/\x1b\[[0-9;]*m//g' | cut -c1-500 | tail -4); rc=$?
  echo "$out" | grep -q "unlisted_signatures=0" && echo "OK   $id seed=$s $(echo "$out" | tail -1 | sed 's/.*evaluations/evaluations/')" || { echo "FAIL $id seed=$s"; echo "$out"; }
done; done
