"""Evaluate seeded changes: for every /verif/seeded/<name>/ (patch.diff, demo.py, meta.json)

1. confirm the demo passes on a clean scratch worktree of /repo HEAD and fails with the patch applied,
2. run the quick tier of the property's check against the patched worktree (VERIF_REPO),
3. record the outcome in seeded/<name>/result.json and print a summary table.

usage: tools/eval_seeded.py [name ...]      (default: all)
Never touches /repo's working tree: everything happens in a scratch worktree under /tmp that is removed afterwards.
"""

from __future__ import annotations

import json
import os
import subprocess
import sys
import tempfile
from pathlib import Path

ROOT = Path(__file__).resolve().parent.parent
PY = "/venv/bin/python"


def sh(cmd, **kw):
    return subprocess.run(cmd, capture_output=True, text=True, **kw)


def main() -> int:
    names = sys.argv[1:] or sorted(p.name for p in (ROOT / "seeded").iterdir() if (p / "patch.diff").exists())
    rows = []
    for name in names:
        d = ROOT / "seeded" / name
        meta = json.loads((d / "meta.json").read_text())
        pid = meta["property"]
        wt = Path(tempfile.mkdtemp(prefix="mxlpy-seed-", dir="/tmp"))
        wt.rmdir()
        r = sh(["git", "-C", "/repo", "worktree", "add", "-q", "--detach", str(wt), "HEAD"])
        if r.returncode != 0:
            print(name, "worktree failed", r.stderr)
            continue
        try:
            env = dict(os.environ, PYTHONPATH=f"{wt}/src", HOME=str(wt / "home"), MPLBACKEND="Agg", RUSTUP_HOME="/root/.rustup", CARGO_HOME="/root/.cargo")
            (wt / "home").mkdir(exist_ok=True)
            clean = sh([PY, str(d / "demo.py")], cwd=str(wt), env=env, timeout=900)
            ap = sh(["git", "-C", str(wt), "apply", str(d / "patch.diff")])
            res = {"property": pid, "applies": ap.returncode == 0, "demo_clean_rc": clean.returncode}
            if ap.returncode != 0:
                res["apply_error"] = ap.stderr[-400:]
            else:
                mut = sh([PY, str(d / "demo.py")], cwd=str(wt), env=env, timeout=900)
                res["demo_mutant_rc"] = mut.returncode
                res["demo_mutant_tail"] = (mut.stdout + mut.stderr)[-300:]
                env2 = dict(os.environ, VERIF_REPO=str(wt), VERIF_SEED=os.environ.get("VERIF_SEED", "1"))
                env2.pop("VERIF_ENV_READY", None)
                chk = sh([PY, "-m", "vlib.run", pid, "--tier", "quick"], cwd=str(ROOT), env=env2, timeout=3000)
                lines = [ln for ln in chk.stdout.splitlines() if ln.startswith("VIOLATION")]
                res["check_rc"] = chk.returncode
                res["check_violations"] = [ln[:300] for ln in lines][:6]
                res["check_summary"] = chk.stdout.strip().splitlines()[-1][:300] if chk.stdout.strip() else chk.stderr[-300:]
                res["caught"] = chk.returncode == 1 and bool(lines)
            (d / "result.json").write_text(json.dumps(res, indent=1) + "\n")
            rows.append((name, res))
        finally:
            sh(["git", "-C", "/repo", "worktree", "remove", "--force", str(wt)])
            sh(["git", "-C", "/repo", "worktree", "prune"])
            # the check run leaves replay files for the mutant: they are not findings of the real tree
            import shutil

            shutil.rmtree(ROOT / "replay" / pid, ignore_errors=True)
    for name, res in rows:
        ok_demo = res.get("demo_clean_rc") == 0 and res.get("demo_mutant_rc", 0) != 0
        print(f"{name:28s} {res['property']} applies={res['applies']} demo_valid={ok_demo} caught={res.get('caught')}  {res.get('check_summary', '')[:120]}")
    return 0


if __name__ == "__main__":
    sys.exit(main())
