"""Revert every recorded repair (known_findings.json, status "fixed") in a scratch worktree and run the property's quick tier:
the violation must come back, with a signature the fixed entry lists ("a fixed entry suppresses nothing").

usage: tools/eval_reverts.py [commit ...]     (default: all)
Writes sensitivity/reverts.json. Never touches /repo's working tree.
"""

from __future__ import annotations

import fnmatch
import json
import os
import re
import shutil
import subprocess
import sys
import tempfile
from pathlib import Path

ROOT = Path(__file__).resolve().parent.parent
PY = "/venv/bin/python"


def sh(cmd, **kw):
    return subprocess.run(cmd, capture_output=True, text=True, **kw)


def main() -> int:
    d = json.loads((ROOT / "known_findings.json").read_text())
    entries = [e for e in (d["findings"] if isinstance(d, dict) else d) if e["status"] == "fixed"]
    if sys.argv[1:]:
        entries = [e for e in entries if e["commit"] in sys.argv[1:]]
    out_path = ROOT / "sensitivity" / "reverts.json"
    out_path.parent.mkdir(exist_ok=True)
    results = json.loads(out_path.read_text()) if out_path.exists() else {}
    for e in entries:
        pid, commit = e["property"], e["commit"]
        wt = Path(tempfile.mkdtemp(prefix="mxlpy-rev-", dir="/tmp"))
        wt.rmdir()
        if sh(["git", "-C", "/repo", "worktree", "add", "-q", "--detach", str(wt), "HEAD"]).returncode != 0:
            print(pid, commit, "worktree failed")
            continue
        res: dict = {"property": pid, "commit": commit, "what": e["what"][:160]}
        try:
            r = sh(["git", "-C", str(wt), "revert", "--no-commit", commit])
            if r.returncode != 0:
                res["reverts_cleanly"] = False
                res["note"] = "later repairs build on this one: the revert conflicts"
            else:
                res["reverts_cleanly"] = True
                env = dict(os.environ, VERIF_REPO=str(wt), VERIF_SEED=os.environ.get("VERIF_SEED", "1"))
                env.pop("VERIF_ENV_READY", None)
                chk = sh([PY, "-m", "vlib.run", pid, "--tier", "quick"], cwd=str(ROOT), env=env, timeout=3000)
                sigs = re.findall(r"^VIOLATION property=\S+ replay=\S+ signature=(\S+)", chk.stdout, flags=re.M)
                res["check_rc"] = chk.returncode
                res["signatures"] = sigs[:12]
                pats = [p.replace("[", "[[]") for p in e["signatures"]]  # brackets are literal in signatures
                res["matching_listed"] = [s for s in sigs if any(fnmatch.fnmatchcase(s, p) for p in pats)][:6]
                res["caught"] = chk.returncode == 1 and bool(sigs)
                res["summary"] = chk.stdout.strip().splitlines()[-1][:200] if chk.stdout.strip() else chk.stderr[-200:]
        finally:
            sh(["git", "-C", "/repo", "worktree", "remove", "--force", str(wt)])
            sh(["git", "-C", "/repo", "worktree", "prune"])
            shutil.rmtree(ROOT / "replay" / pid, ignore_errors=True)
        multi = sum(1 for e2 in (d["findings"] if isinstance(d, dict) else d) if e2.get("commit") == commit) > 1
        results[f"{commit}:{pid}" if multi else commit] = res
        out_path.write_text(json.dumps(results, indent=1) + "\n")
        print(f"{pid} {commit} clean_revert={res.get('reverts_cleanly')} caught={res.get('caught')} listed={bool(res.get('matching_listed'))} {res.get('signatures', [''])[:2]}", flush=True)
    return 0


if __name__ == "__main__":
    sys.exit(main())
