"""Run the pinned baseline command and compare with BASELINE.json stable_pass."""
import json, subprocess, sys, xml.etree.ElementTree as ET, tempfile, os
base = json.load(open("/root/.vp/BASELINE.json"))
out = tempfile.mktemp(suffix=".xml", dir="/tmp")
cmd = base["cmd"].replace("<file>", out)
env = dict(os.environ); env.pop("MXLPY_VERIF", None)
subprocess.run(cmd, shell=True, env=env, stdout=subprocess.DEVNULL, stderr=subprocess.DEVNULL)
passed = set()
for tc in ET.parse(out).getroot().iter("testcase"):
    if not any(ch.tag in ("failure", "error", "skipped") for ch in tc):
        passed.add(f"{tc.get('classname')}::{tc.get('name')}")
os.remove(out)
want = set(base["stable_pass"])
missing = sorted(want - passed)
print(f"stable_pass={len(want)} passed_now={len(passed)} missing={len(missing)}")
for m in missing[:40]:
    print("  MISSING", m)
sys.exit(1 if missing else 0)
