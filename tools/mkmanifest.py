"""Regenerate MANIFEST.json from the check modules' metadata."""
import importlib, json, sys
from pathlib import Path
ROOT = Path(__file__).resolve().parent.parent
sys.path.insert(0, str(ROOT))
props = [json.loads(l) for l in (ROOT / "properties.jsonl").read_text().splitlines() if l.strip()]
checks = []
na = []
NA_REASONS = json.loads((ROOT / "tools" / "not_applicable.json").read_text()) if (ROOT / "tools" / "not_applicable.json").exists() else {}
for p in props:
    pid = p["id"]
    mods = sorted((ROOT / "checks").glob(f"{pid.lower()}_*.py"))
    if not mods:
        na.append({"property_id": pid, "reason": NA_REASONS.get(pid, "check not built yet in this session (planned; see DESIGN.md section 5)")})
        continue
    m = importlib.import_module(f"checks.{mods[0].stem}")
    checks.append({
        "property_id": pid,
        "quick_cmd": f"/venv/bin/python -m vlib.run {pid} --tier quick",
        "thorough_cmd": f"/venv/bin/python -m vlib.run {pid} --tier thorough",
        "evidence_file": f"evidence/{pid}.json",
        "replay_cmd_template": f"/venv/bin/python -m vlib.run {pid} --replay {{path}}",
        "engine": getattr(m, "ENGINE", "hypothesis"),
        "level_claimed": {"category": m.LEVEL, "text": m.LEVEL_TEXT, "design_ref": m.DESIGN_REF},
        "level_note": m.LEVEL_NOTE,
        "technique": m.TECHNIQUE,
    })
man = {
    "version": 1,
    "setup_cmd": "bash setup.sh",
    "hooks": {
        "guard": "MXLPY_VERIF",
        "enable": "none needed: every observation point is public API; checks set MXLPY_VERIF=1 but no source hook reads it",
        "baseline_off_cmd": "cd /repo && /venv/bin/python -m pytest -ra -q -p no:cacheprovider --timeout=900 --continue-on-collection-errors",
        "source_commits": [],
        "add_only": True,
    },
    "engines": [
        {"name": "hypothesis", "path": "/venv/lib/python3.12/site-packages/hypothesis", "serves_properties": [c["property_id"] for c in checks], "kind_free_text": "property-based generation + shrinking (collect/bucket/shrink runner in vlib/core.py)"},
        {"name": "atheris", "path": ".deps/atheris (installed by setup.sh from the offline wheelhouse)", "serves_properties": ["C04", "C05", "C06", "C14", "C15", "C16", "C18", "C20"], "kind_free_text": "coverage-guided stage of the thorough tier: libFuzzer mutates the choice sequence of the check's own Hypothesis strategy, same oracle (tools/fuzz.py); skipped with a note if atheris is missing"},
    ],
    "checks": checks,
    "not_applicable": na,
    "notes": "All checks: /venv/bin/python -m vlib.run <ID> --tier quick|thorough; VERIF_SEED honoured; exit 0 held / 1 VIOLATION / 2 harness error. known_findings.json is read-only at run time.",
}
(ROOT / "MANIFEST.json").write_text(json.dumps(man, indent=1) + "\n")
print("checks:", [c["property_id"] for c in checks], "na:", [x["property_id"] for x in na])
