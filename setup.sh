#!/bin/bash
# Idempotent offline setup: make sure hypothesis is importable from /venv, probe toolchains.
set -u
cd "$(dirname "$0")"
if ! /venv/bin/python -c "import hypothesis" 2>/dev/null; then
  /venv/bin/pip install --no-index --find-links /opt/veriftools/wheels hypothesis || exit 2
fi
/venv/bin/python -c "import hypothesis, mxlpy, sys; print('hypothesis', hypothesis.__version__, 'mxlpy', mxlpy.__file__)" || exit 2
command -v node >/dev/null && echo "node $(node --version)" || echo "node missing (C07 TypeScript target will be reported as not executed)"
command -v rustc >/dev/null && echo "$(rustc --version)" || echo "rustc missing (C07 Rust target will be reported as not executed)"
# coverage-guided stage of the thorough tier (optional: without it that stage is skipped and says so)
if ! PYTHONPATH=.deps /venv/bin/python -c "import atheris" 2>/dev/null; then
  /venv/bin/pip install -q --no-index --find-links /opt/veriftools/wheels --target .deps atheris >/dev/null 2>&1 || echo "atheris not installable: coverage-guided stage will be skipped"
fi
mkdir -p evidence .work
exit 0
